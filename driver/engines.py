"""Engines that are not history simulations: C15 (scaling on a small stack)."""
import json
import os
import subprocess
import sys
import time

import driver as D


def scale_child(shape, n, stack_kb, chords=0, selfsame=0, seed=1, timeout=600, give=None, dev=False):
    cmd = [D.BIN0 if dev else D.BIN, "scale", "--shape", shape, "--n", str(n), "--stack-kb", str(stack_kb), "--chords", str(chords), "--selfsame-every", str(selfsame), "--seed", str(seed)] + (["--give", give] if give else [])
    try:
        r = subprocess.run(cmd, stdout=subprocess.PIPE, stderr=subprocess.PIPE, timeout=timeout)
    except subprocess.TimeoutExpired:
        return {"error": "timeout", "shape": shape, "n": n, "stack_kb": stack_kb}
    for line in r.stdout.decode(errors="replace").splitlines():
        if line.startswith("{"):
            j = json.loads(line)
            j["_code"] = r.returncode
            j.setdefault("shape", shape)
            j.setdefault("n", n)
            j["chords"] = chords
            j["selfsame_every"] = selfsame
            j["seed"] = seed
            j["give"] = give
            j["dev"] = dev
            return j
    return {"error": f"child died: returncode={r.returncode}", "shape": shape, "n": n, "stack_kb": stack_kb, "chords": chords, "selfsame_every": selfsame, "seed": seed, "_code": r.returncode, "give": give, "dev": dev}


def judge_scale(j):
    """Return None if fine, else (kind, cause, msg)."""
    if "error" in j:
        how = {None: "", "unwrap": " given up through try_unwrap", "steal": " given up through make_mut with a Weak outstanding"}[j.get("give")]
        return ("crash", "stack-overflow-or-crash", f"reclaiming a {j['shape']} of {j['n']} objects{how} on a {j['stack_kb']} KiB stack{' (unoptimised build)' if j.get('dev') else ''} did not complete: {j['error']}")
    n, e = j["n"], j["edges"]
    if j["destroyed"] != n or j["double"] != 0:
        return ("not-collected", "group-not-fully-destroyed", f"{j['destroyed']} of {n} objects destroyed ({j['double']} twice)")
    if j.get("count_errors", 0):
        return ("count-mismatch", "big-count-wrong", f"{j['shape']}: strong/weak counts with {j.get('chords')} handles are not exact ({j['count_errors']} wrong observations)")
    if j["trace_calls"] != (0 if j["shape"] == "hubonly" else 1):
        return ("nonlinear", "repeated-traces", f"{j['trace_calls']} traces for one drop of the last outside handle")
    if j["visits"] > n + 2:
        return ("nonlinear", "objects-visited-more-than-once", f"{j['visits']} first-time visits for {n} objects")
    if j["pops"] > 2 * (n + e) + 8:
        return ("nonlinear", "worklist-pops", f"{j['pops']} worklist pops for {n} objects and {e} adoptions")
    if j["scanned"] > 2 * (n + e) + 8:
        return ("nonlinear", "entries-scanned", f"{j['scanned']} table entries scanned for {n} objects and {e} adoptions")
    return None


def plan(tier, seed):
    import random
    rng = random.Random(seed)
    stacks = [64, 128, 256]
    sc = []
    ring_ns = [1000, 2000, 4000, 8000, 16000, 32000, 64000, 128000, 256000] + ([512000, 1000000] if tier == "thorough" else [])
    for n in ring_ns:
        sc.append(("ring", n, rng.choice(stacks), 0, 0))
    for n in ([1000, 4000, 16000, 64000] + ([256000] if tier == "thorough" else [])):
        sc.append(("ring", n, rng.choice(stacks), n * rng.choice([1, 2, 3]), 0))
        sc.append(("ring+self", n, rng.choice(stacks), n // 2, rng.choice([2, 3, 5])))
    for n in ([50, 100, 200, 400] + ([800, 1200] if tier == "thorough" else [])):
        sc.append(("clique", n, rng.choice(stacks), 0, 0))
    # growth families: same shape at 4k / 16k / 64k (/ 256k) objects
    for n in ([4000, 16000, 64000] + ([256000] if tier == "thorough" else [])):
        sc.append(("star", n, 128, 0, 0))
        sc.append(("ring+skip2", n, 128, 0, 0))
        sc.append(("ring", n, 128, 2 * n, 0))
    # more shapes: binary tree of adoptions over the chain, ring of 8-cliques, two objects
    # with a huge multiplicity, a long tail feeding a small ring is the chain itself
    for n in ([4000, 16000, 64000] + ([256000] if tier == "thorough" else [])):
        sc.append(("tree", n, 128, 0, 0))
        sc.append(("cliques", n, 128, 0, 0))
        sc.append(("tail", n, 128, 0, 0))
        sc.append(("mstar", n, 128, 0, 0))
    for m in ([300, 10000, 70000, 100000] + ([1000000] if tier == "thorough" else [])):
        sc.append(("multi", 4, 128, m, 0))
        sc.append(("manyweak", 6, 128, m, 0))
    # odd sizes drawn from the seed
    for _ in range(6 if tier == "quick" else 30):
        sc.append((rng.choice(["ring", "ring+self"]), rng.randrange(1, 50000), rng.choice(stacks), rng.randrange(0, 20000), rng.choice([0, 0, 2, 7])))
    sc.append(("ring", 1, 64, 0, 0))
    sc.append(("ring", 2, 64, 0, 1))
    return sc


def after_big_child(shape, n, seed, timeout=600):
    try:
        r = subprocess.run([D.BIN, "after-big", "--shape", shape, "--n", str(n), "--seed", str(seed)], stdout=subprocess.PIPE, stderr=subprocess.PIPE, timeout=timeout)
    except subprocess.TimeoutExpired:
        return {"error": "timeout", "shape": shape, "n": n}
    for line in r.stdout.decode(errors="replace").splitlines():
        if line.startswith("{"):
            j = json.loads(line)
            j.update(shape=shape, n=n, seed=seed)
            return j
    return {"error": f"child died: returncode={r.returncode}", "shape": shape, "n": n}


def judge_after_big(j):
    """The cost of a small group must not depend on what the process collected before."""
    if "error" in j:
        return ("crash", "after-big-crashed", f"small groups after a {j['shape']} of {j['n']}: {j['error']}")
    if j["big_destroyed"] != j["big_n"]:
        return ("not-collected", "group-not-fully-destroyed", f"{j['big_destroyed']} of {j['big_n']} objects destroyed")
    fh = j.get("former_hub", [])
    if fh:
        fresh = fh[0]
        for h in fh[1:]:
            if h["ring_destroyed"] != 2:
                return ("not-collected", "former-hub-ring", f"a former hub of {h['leaves']} leaves in a 2-ring: {h['ring_destroyed']} of 2 destroyed")
            for key, slack in (("bytes", 2048), ("allocs", 8)):
                if h[key] > 2 * fresh[key] + slack:
                    return ("nonlinear", "cost-depends-on-the-objects-past", f"a non-final release of a handle to a 2-ring member requested {fresh[key]} {key} for a fresh member and {h[key]} {key} for a member that once adopted {h['leaves']} leaves and gave them all up")
    k = len(j["after"])
    for i, a in enumerate(j["after"]):
        b = j["before"][i]
        if a["destroyed"] != b["destroyed"]:
            return ("not-collected", "small-group-after-big", f"small group {i} after a {j['shape']} of {j['n']}: {a['destroyed']} destroyed, {b['destroyed']} before")
        for key, slack in (("bytes", 4096), ("allocs", 16), ("pops", 16), ("scanned", 16)):
            if a[key] > 2 * b[key] + slack:
                return ("nonlinear", "cost-depends-on-earlier-groups", f"tracing and collecting a ring of {b['destroyed']} objects took {b[key]} {key} before and {a[key]} {key} after the same process had collected a {j['shape']} of {j['n']} objects")
    return None


def check_c15(tier, seed, jobs):
    import concurrent.futures as cf
    t0 = time.time()
    sc = plan(tier, seed)
    results = []
    ab = [("ring", 30000), ("mstar", 50000), ("cliques", 20000)] + ([("ring", 400000), ("star", 200000)] if tier == "thorough" else [])
    with cf.ThreadPoolExecutor(max_workers=min(jobs, 6)) as ex:
        ab_results = list(ex.map(lambda s: after_big_child(s[0], s[1], seed), ab))
    # the same teardown code without optimisation (no tail calls, no inlining: every
    # library frame is real), and the last handle given up through try_unwrap / make_mut
    extra = []
    for dev in (False, True):
        for give in (None, "unwrap", "steal"):
            extra.append(dict(shape="hubonly", n=20000, stack_kb=256, give=give, dev=dev))
        if dev:
            for shape, n in (("ring", 64000), ("mstar", 20000), ("cliques", 16000), ("star", 20000), ("tail", 64000)):
                extra.append(dict(shape=shape, n=n, stack_kb=256, give=None, dev=True))
    # big ones are memory hungry: limit parallelism
    with cf.ThreadPoolExecutor(max_workers=min(jobs, 6)) as ex:
        futs = [ex.submit(scale_child, s[0], s[1], s[2], s[3], s[4], seed) for s in sc]
        futs += [ex.submit(scale_child, e["shape"], e["n"], e["stack_kb"], 0, 0, seed, 600, e["give"], e["dev"]) for e in extra]
        for f in futs:
            results.append(f.result())
    bad = []
    for j in results:
        v = judge_scale(j)
        if v:
            bad.append((j, v))
    for j in ab_results:
        v = judge_after_big(j)
        if v:
            j["engine"] = "afterbig"
            bad.append((j, v))
    # growth: cost per (N+E) must not grow along the doubling series of plain rings
    series = sorted([j for j in results if "error" not in j and j["shape"] == "ring" and j.get("chords", 0) == 0 and j["n"] >= 1000], key=lambda j: j["n"])
    ratios = [(j["n"], round(j["pops"] / (j["n"] + j["edges"]), 4), round(j["drop_us"] / (j["n"] + j["edges"]), 4)) for j in series]
    if not bad and len(series) >= 2:
        first, last = series[0], series[-1]
        per_first = max(first["drop_us"], 1) / (first["n"] + first["edges"])
        per_last = last["drop_us"] / (last["n"] + last["edges"])
        if per_last > 25 * per_first and per_last > 5.0:
            bad.append((last, ("nonlinear", "time-per-object-grows", f"time per object+adoption grew from {per_first:.3f}us at N={first['n']} to {per_last:.3f}us at N={last['n']}")))
    # the same growth bound for the shape families whose worklist or in-degree grows
    # with N (star, ring with i->i+2 chords, ring with 2N random chords): a trace that
    # is quadratic only for such shapes leaves the visit counters unchanged
    fams = {}
    for j in results:
        if "error" in j:
            continue
        key = None
        if j["shape"] in ("star", "ring+skip2", "tree", "cliques", "tail", "mstar") and j["n"] in (4000, 16000, 64000, 256000):
            key = j["shape"]
        elif j["shape"] == "ring" and j.get("chords", 0) == 2 * j["n"] and j["n"] in (4000, 16000, 64000, 256000):
            key = "ring+2N-chords"
        if key:
            fams.setdefault(key, []).append(j)
    fam_ratios = {}
    for key, js in fams.items():
        js.sort(key=lambda j: j["n"])
        if len(js) < 2:
            continue
        def per(j):
            return max(j["drop_us"], 1) / (j["n"] + j["edges"])
        ratio = per(js[-1]) / per(js[0])
        fam_ratios[key] = [(j["n"], round(per(j), 4)) for j in js]
        if not bad and ratio > 6 and per(js[-1]) > 2.0:
            # re-measure alone before believing it (the scenarios above ran concurrently)
            a = scale_child(js[0]["shape"], js[0]["n"], 128, js[0].get("chords", 0), 0, seed)
            b = scale_child(js[-1]["shape"], js[-1]["n"], 128, js[-1].get("chords", 0), 0, seed)
            if "error" not in a and "error" not in b and per(b) / per(a) > 6 and per(b) > 2.0:
                b["growth_from"] = a["n"]
                bad.append((b, ("nonlinear", "time-per-object-grows", f"{key}: time per object+adoption grew from {per(a):.3f}us at N={a['n']} to {per(b):.3f}us at N={b['n']} (x{per(b) / per(a):.1f}; linear work stays within x3, the bound is x6)")))
    distinct = len({(j.get("shape"), j.get("n"), j.get("chords"), j.get("selfsame_every"), j.get("stack_kb")) for j in results if "error" not in j and j["n"] >= 1000})
    coverage = {
        "evaluations": len(results),
        "distinct_nontrivial": distinct,
        "rule": "scaling scenarios (ring, ring with seeded chords, ring with self adoptions and same-handle noise, clique) each run in a child process on a thread with a 64/128/256 KiB stack, one outside handle dropped last; non-trivial = group of >= 1000 objects; distinct = distinct (shape, N, chords, noise, stack)",
        "samples": [{k: j.get(k) for k in ("shape", "n", "edges", "stack_kb", "destroyed", "pops", "visits", "scanned", "drop_us")} for j in results[:3] + results[-3:]],
        "max_group": max((j.get("n", 0) for j in results if "error" not in j), default=0),
        "max_adoptions": max((j.get("edges", 0) for j in results if "error" not in j), default=0),
        "doubling_series_pops_and_us_per_object_plus_adoption": ratios,
        "growth_families_us_per_object_plus_adoption": fam_ratios,
        "cost_of_small_groups_before_and_after_a_big_one": [{"big": f"{j.get('shape')} {j.get('n')}", "before": j.get("before", [])[:3], "after": j.get("after")} for j in ab_results],
        "cost_of_a_trace_from_a_former_hub": (ab_results[0].get("former_hub") if ab_results else None),
        "fault_counts_fired": {"small_stack": len(results)},
        "components": {"real": ["cactusref (built from /repo working tree with --cfg cactusref_verif)", "hashbrown", "rustc-hash", "system allocator"], "stub": ["payload value type"]},
        "exhaustive": False,
    }
    # small-history side: per-trace visit bound under the history simulator
    hist = None
    if not bad:
        total = max(16, int(D.RUNS[tier]["C15"] * float(os.environ.get("VERIF_SCALE", "1"))))
        viol, stats, samples, ndist, norders, _ = D.run_batches("C15", seed, total, tier == "thorough", jobs)
        mine = [v for v in viol if "C15" in v.get("props", [])]
        hist = {"generated_histories": stats.get("runs", 0), "executions": stats.get("execs", 0), "traces_checked": stats.get("p_c15_visit_checks", 0),
                "group_teardowns": stats.get("p_path_cycle", 0), "distinct_nontrivial_histories": ndist, "sample": samples[:2]}
        coverage["small_history_visit_bound"] = hist
        coverage["evaluations"] += stats.get("execs", 0)
        coverage["distinct_nontrivial"] += ndist
        if mine:
            mine.sort(key=lambda v: len(v.get("ops", "")))
            v = mine[0]
            mini = D.minimise("C15", v)
            path = D.write_replay("C15", v, mini)
            D.write_evidence("C15", tier, seed, "exploration", coverage, time.time() - t0, len(mine))
            print(f"violation kind={v['kind']} cause={v['cause']} msg={v.get('msg')}")
            print(f"VIOLATION property=C15 replay={path}")
            return 1
    if bad:
        j, (kind, cause, msg) = bad[0]
        os.makedirs(D.REPLAYS, exist_ok=True)
        path = os.path.join(D.REPLAYS, f"C15-{j['shape']}-{j['n']}-{j.get('stack_kb')}.json")
        with open(path, "w") as f:
            json.dump({"property": "C15", "engine": j.get("engine", "scale"), "give": j.get("give"), "dev": j.get("dev"), "kind": kind, "cause": cause, "growth_from": j.get("growth_from"), "shape": j["shape"], "n": j["n"], "stack_kb": j.get("stack_kb", 128), "chords": j.get("chords", 0), "selfsame_every": j.get("selfsame_every", 0), "seed": j.get("seed", seed), "expect": {"kind": kind, "cause": cause, "msg": msg}}, f, indent=1)
        D.write_evidence("C15", tier, seed, "exploration", coverage, time.time() - t0, len(bad))
        print(f"violation kind={kind} cause={cause} msg={msg}")
        print(f"VIOLATION property=C15 replay={path}")
        return 1
    D.write_evidence("C15", tier, seed, "exploration", coverage, time.time() - t0, 0, ["the time-growth bound is lenient (25x over the doubling series) to stay silent under machine noise; the visit/pop/scan counters are exact"])
    print(f"C15 {tier}: held on {len(results)} scaling scenarios (max group {coverage['max_group']} objects, {coverage['max_adoptions']} adoptions), {time.time() - t0:.1f}s")
    return 0


def big_shapes(prop, tier, seed, jobs):
    """C03 for shapes the history simulator cannot hold (hundreds to thousands of
    members): every member of the orphaned group must be destroyed, exactly once, by the
    drop of the last outside handle. Returns (scenarios run, first failure or None)."""
    import concurrent.futures as cf
    import random
    rng = random.Random(seed * 7919 + 3)
    sizes = [300, 1000, 5000] + ([20000, 100000] if tier == "thorough" else [])
    sc = []
    for n in sizes:
        for shape in ("mstar", "star", "ring", "tree", "cliques", "tail", "ring+skip2", "ring+self"):
            sc.append((shape, n + rng.randrange(0, 17), rng.choice([64, 128, 256]), n if shape == "ring" else 0, 3 if shape == "ring+self" else 0))
    for n in (60, 150) + ((400,) if tier == "thorough" else ()):
        sc.append(("clique", n, 128, 0, 0))
    results = []
    with cf.ThreadPoolExecutor(max_workers=min(jobs, 8)) as ex:
        for j in ex.map(lambda s: scale_child(s[0], s[1], s[2], s[3], s[4], seed), sc):
            results.append(j)
    for j in results:
        if "error" in j:
            return len(results), (j, ("crash", "big-group-teardown-crashed", f"reclaiming a {j['shape']} of {j['n']} objects did not complete: {j['error']}"))
        if j["destroyed"] != j["n"] or j["double"] != 0:
            return len(results), (j, ("not-collected", "big-group-not-fully-destroyed", f"{j['shape']} of {j['n']} objects, every handle a recorded adoption inside the group: {j['destroyed']} destroyed ({j['double']} twice) by the drop of the last outside handle"))
    return len(results), None


def dead_child(shape, n, chords, act, at, seed, timeout=300):
    cmd = [D.BIN, "scale", "--shape", shape, "--n", str(n), "--stack-kb", "256", "--chords", str(chords), "--seed", str(seed), "--dead-act", act, "--dead-at", str(at)]
    try:
        r = subprocess.run(cmd, stdout=subprocess.PIPE, stderr=subprocess.PIPE, timeout=timeout)
    except subprocess.TimeoutExpired:
        return {"error": "timeout", "_code": None}
    j = {"_code": r.returncode}
    for line in r.stdout.decode(errors="replace").splitlines():
        if line.startswith("{"):
            j.update(json.loads(line))
    return j


def judge_dead(sc, j):
    shape, n, chords, act, at = sc
    what = f"{shape} of {n} objects (+{chords} chords), destructor #{at} onwards {'clones' if act == 'clone' else 'drops' if act == 'drop' else 'overwrites an alias with clone_from of'} its stored handles to dying members"
    if j.get("error") == "timeout":
        return ("hang", "big-dead-handle-timeout", what + ": no result in time")
    if act in ("clone", "clonefrom"):
        if j.get("type") == "dead-clone-returned":
            return ("abort-missing", "big-group-dead-clone-returned", what + f": Rc::clone returned in destructor #{j.get('ord')} (strong count through the new handle {j.get('strong')}); the process must abort instead")
        if j["_code"] is not None and j["_code"] >= 0:
            return ("abort-missing", "big-group-dead-clone-no-abort", what + f": the process ended with code {j['_code']} instead of aborting inside Rc::clone")
        return None
    if j["_code"] != 0 or j.get("type") != "scale":
        return ("crash", "big-group-dead-drop-crashed", what + f": the process did not complete (code {j['_code']}); dropping a handle to a destroyed member must be a no-op")
    if j["destroyed"] != n or j["double"] != 0:
        return ("double-destruction" if j["double"] else "not-collected", "big-group-dead-drop", what + f": {j['destroyed']} destroyed, {j['double']} twice")
    return None


def big_dead(tier, seed, jobs):
    """C16 for groups the enumerated child-process scenarios cannot hold (thousands of
    members, so that teardown code that works in chunks or grows its worklists is
    exercised): returns (scenarios, first failure or None)."""
    import concurrent.futures as cf
    import random
    rng = random.Random(seed * 104729 + 5)
    sc = []
    sizes = [1100, 2500, 5000] + ([20000, 70000] if tier == "thorough" else [])
    for n in sizes:
        for shape in ("ring", "mstar", "cliques"):
            m = n + rng.randrange(0, 64)
            chords = 2 * m if shape == "ring" else 0
            for act in ("clone", "drop", "clonefrom"):
                for at in (0, rng.randrange(1, m // 2), rng.randrange(m // 2, m - 1)):
                    sc.append((shape, m, chords, act, at))
    fails = None
    with cf.ThreadPoolExecutor(max_workers=min(jobs, 8)) as ex:
        for s, j in zip(sc, ex.map(lambda s: dead_child(s[0], s[1], s[2], s[3], s[4], seed), sc)):
            v = judge_dead(s, j)
            if v and not fails:
                fails = (s, v)
    return len(sc), fails


def nested_child(args, timeout=1200):
    try:
        r = subprocess.run([D.BIN] + (args if args[0] == "threads" else ["nested"] + args), stdout=subprocess.PIPE, stderr=subprocess.PIPE, timeout=timeout)
    except subprocess.TimeoutExpired:
        return {"error": "timeout", "_code": None}
    j = {"_code": r.returncode}
    for line in r.stdout.decode(errors="replace").splitlines():
        if line.startswith("{"):
            j.update(json.loads(line))
    return j


def judge_nested(prop, args, j):
    if args[0] == "threads":
        what = f"{args[2]} threads, each building, tracing and releasing {args[4]} fully recorded rings of its own (real threads: a stress run, not a controlled schedule)"
        if j.get("type") != "threads" or j["_code"] != 0:
            return ("crash", "independent-threads-crashed", what + f": the process did not complete (code {j['_code']})")
        if j["failures"]:
            f0 = j["failures"][0]
            return ("not-collected", "independent-threads-interfere", what + f": thread {f0['thread']}, round {f0['round']}: {f0['what']} ({len(j['failures'])} threads failed)")
        return None
    what = "nested teardown of groups of sizes " + args[1] if args[0] == "--sizes" else f"last outside handle released by a thread-local destructor at thread exit ({args[1]} registration)"
    if j.get("type") != "nested" or j["_code"] != 0:
        return ("crash", "nested-teardown-crashed", what + f": the process did not complete (code {j['_code']}, {j.get('error', 'no result')})")
    if prop == "C04":
        if j["leaked_blocks"] != 0:
            return ("leak", "nested-teardown-leak", what + f": {j['leaked_blocks']} allocations not returned after everything was destroyed")
        return None
    if j["double"]:
        return ("double-destruction", "nested-teardown", what + f": {j['double']} objects destroyed twice")
    if j["destroyed"] != j["n"]:
        return ("not-collected", "nested-teardown", what + f": {j['destroyed']} of {j['n']} objects destroyed")
    return None


def allocfail_scenarios(seed):
    """Fault: the k-th allocation the library requests while the last outside handle of a
    ring is released is refused, for every k until none is left to refuse. Dying is fine
    (the allocation-error handler aborts); returning with the ring silently kept is not.
    Returns (scenarios run, faults that fired, first failure or None)."""
    ran = fired = 0
    fail = None
    for n, chords in ((2, 0), (5, 3), (8, 8), (40, 20)):
        for at in range(0, 200):
            try:
                r = subprocess.run([D.BIN, "allocfail", "--n", str(n), "--chords", str(chords), "--at", str(at), "--seed", str(seed)], stdout=subprocess.PIPE, stderr=subprocess.PIPE, timeout=120)
            except subprocess.TimeoutExpired:
                return ran, fired, ((n, chords, at), ("hang", "allocation-failure-hang", f"ring of {n} (+{chords} chords), allocation #{at} refused during the last release: no result in time"))
            ran += 1
            j = next((json.loads(l) for l in r.stdout.decode(errors="replace").splitlines() if l.startswith("{")), None)
            if j is None:
                if r.returncode < 0:
                    fired += 1
                    continue  # the process died: acceptable
                return ran, fired, ((n, chords, at), ("crash", "allocation-failure-scenario", f"ring of {n} (+{chords} chords), allocation #{at} refused: exit code {r.returncode} without a result"))
            if not j["fired"]:
                break
            fired += 1
            if j["destroyed"] != j["n"] and not fail:
                fail = ((n, chords, at), ("not-collected", "allocation-failure-swallowed", f"ring of {n} (+{chords} chords), every handle a recorded adoption: allocation #{at} requested by the library during the release of the last outside handle was refused; the release returned and {j['n'] - j['destroyed']} of {j['n']} members are still alive"))
    return ran, fired, fail


def nested_scenarios(prop, tier, seed, jobs):
    """Teardowns nested through destructors at sizes the history simulator cannot hold,
    and the release of a group by a thread-local destructor at thread exit."""
    import concurrent.futures as cf
    import random
    rng = random.Random(seed * 31337 + 11)
    big = [600, 1500, 5000] + ([40000] if tier == "thorough" else [])
    sc = []
    for b in big:
        sc.append(["--sizes", f"2,{b}"])
        sc.append(["--sizes", f"{b},2"])
        sc.append(["--sizes", f"{b},{b + rng.randrange(1, 50)}"])
        sc.append(["--sizes", f"{rng.randrange(2, 40)},{b},{rng.randrange(2, 9)},{2 * b}"])
    sc.append(["--sizes", ",".join(str(rng.randrange(2, 30)) for _ in range(40))])
    if prop in ("C03", "C10"):
        sc += [["--tls", "early"], ["--tls", "late"]]
    if prop == "C03":
        sc += [["threads", "--threads", "4", "--rounds", "40000", "--seed", str(seed)], ["threads", "--threads", "12", "--rounds", "15000" if tier == "quick" else "200000", "--seed", str(seed + 1)]]
    fail = None
    with cf.ThreadPoolExecutor(max_workers=min(jobs, 8)) as ex:
        for a, j in zip(sc, ex.map(nested_child, sc)):
            v = judge_nested(prop, a, j)
            if v and not fail:
                fail = (a, v)
    return len(sc), fail


def held_child(shape, n, chords, seed, samples, timeout=600):
    args = ["held", "--shape", shape, "--n", str(n), "--chords", str(chords), "--seed", str(seed), "--samples", str(samples)]
    try:
        r = subprocess.run([D.BIN] + args, stdout=subprocess.PIPE, stderr=subprocess.PIPE, timeout=timeout)
    except subprocess.TimeoutExpired:
        return {"error": "timeout", "_code": None}
    j = {"_code": r.returncode}
    for line in r.stdout.decode(errors="replace").splitlines():
        if line.startswith("{"):
            j.update(json.loads(line))
    return j


def judge_held(prop, sc, j):
    shape, n, chords, samples = sc
    what = f"{shape} of {n} objects (+{chords} chords), fully recorded, one member held from outside while the main handle is released"
    if j.get("type") != "held" or j["_code"] != 0:
        return ("crash", "held-member-sweep-crashed", what + f": the process did not complete (code {j['_code']}, {j.get('error', 'no result')})")
    for f in j["failures"]:
        if prop == "C01" and f["destroyed_while_held"]:
            return ("premature-destruction", "held-member-of-big-group", what + f": with member {f['held']} held, {f['destroyed_while_held']} objects were destroyed (or its count was wrong) although it reaches every member")
        if prop == "C03" and not f["destroyed_while_held"] and (f["destroyed"] != n or f["double"]):
            return ("not-collected", "held-member-of-big-group", what + f": after member {f['held']} was released too, {f['destroyed']} of {n} objects were destroyed ({f['double']} twice)")
    return None


def held_scenarios(prop, tier, seed, jobs):
    """C01/C03 on worlds of 70..1000 objects: the random histories stay below about 120
    objects, the big shapes only tear down."""
    import concurrent.futures as cf
    import random
    rng = random.Random(seed * 2654435761 % 1000003)
    sc = []
    for n in [66, 70, 130, 260] + ([1000, 3000] if tier == "thorough" else []):
        for shape in ("ring", "ring+skip2", "cliques", "mstar", "ring+self"):
            m = n + rng.randrange(0, 9)
            sc.append((shape, m, rng.choice([0, m, 2 * m]) if shape == "ring" else 0, 300))
    sc.append(("clique", 70, 0, 70))
    fail = None
    with cf.ThreadPoolExecutor(max_workers=min(jobs, 8)) as ex:
        for s, j in zip(sc, ex.map(lambda s: held_child(s[0], s[1], s[2], seed, s[3]), sc)):
            v = judge_held(prop, s, j)
            if v and not fail:
                fail = (s, v)
    return len(sc), fail


def check(prop, tier, seed, jobs):
    if prop == "C15":
        return check_c15(tier, seed, jobs)
    D.eprint(f"HARNESS-ERROR unknown property {prop}")
    return 2


def replay(rec, path, quiet=False):
    if rec.get("engine") == "scale":
        j = scale_child(rec["shape"], rec["n"], rec["stack_kb"], rec.get("chords", 0), rec.get("selfsame_every", 0), rec.get("seed", 1), 600, rec.get("give"), bool(rec.get("dev")))
        v = judge_scale(j)
        if not v and rec.get("growth_from"):
            n0 = rec["growth_from"]
            c0 = rec.get("chords", 0) * n0 // rec["n"]
            a = scale_child(rec["shape"], n0, rec["stack_kb"], c0, rec.get("selfsame_every", 0), rec.get("seed", 1))
            if "error" not in a:
                pa = max(a["drop_us"], 1) / (a["n"] + a["edges"])
                pb = max(j["drop_us"], 1) / (j["n"] + j["edges"])
                if pb / pa > 6 and pb > 2.0:
                    v = ("nonlinear", "time-per-object-grows", f"time per object+adoption grew from {pa:.3f}us at N={n0} to {pb:.3f}us at N={j['n']} (x{pb / pa:.1f})")
        if v:
            if not quiet:
                print(f"violation kind={v[0]} cause={v[1]} msg={v[2]}")
                print(f"VIOLATION property={rec['property']} replay={path}")
            return 1, {"type": "violation", "kind": v[0], "cause": v[1], "msg": v[2], "props": [rec["property"]]}
        if not quiet:
            print(f"replay of {path}: no violation")
        return 0, {"type": "ok"}
    if rec.get("engine") == "afterbig":
        v = judge_after_big(after_big_child(rec["shape"], rec["n"], rec.get("seed", 1)))
        if v:
            if not quiet:
                print(f"violation kind={v[0]} cause={v[1]} msg={v[2]}")
                print(f"VIOLATION property={rec['property']} replay={path}")
            return 1, {"type": "violation", "kind": v[0], "cause": v[1], "msg": v[2], "props": [rec["property"]]}
        if not quiet:
            print(f"replay of {path}: no violation")
        return 0, {"type": "ok"}
    if rec.get("engine") == "held":
        sc = (rec["shape"], rec["n"], rec.get("chords", 0), rec.get("samples", 300))
        v = judge_held(rec["property"], sc, held_child(sc[0], sc[1], sc[2], rec.get("seed", 1), sc[3]))
        if v:
            if not quiet:
                print(f"violation kind={v[0]} cause={v[1]} msg={v[2]}")
                print(f"VIOLATION property={rec['property']} replay={path}")
            return 1, {"type": "violation", "kind": v[0], "cause": v[1], "msg": v[2], "props": [rec["property"]]}
        if not quiet:
            print(f"replay of {path}: no violation")
        return 0, {"type": "ok"}
    if rec.get("engine") == "allocfail":
        r = subprocess.run([D.BIN, "allocfail", "--n", str(rec["n"]), "--chords", str(rec["chords"]), "--at", str(rec["at"]), "--seed", str(rec.get("seed", 1))], stdout=subprocess.PIPE, stderr=subprocess.PIPE)
        j = next((json.loads(l) for l in r.stdout.decode(errors="replace").splitlines() if l.startswith("{")), None)
        if j and j["fired"] and j["destroyed"] != j["n"]:
            if not quiet:
                print(f"violation kind=not-collected cause=allocation-failure-swallowed msg={j['n'] - j['destroyed']} of {j['n']} members alive after the release returned")
                print(f"VIOLATION property={rec['property']} replay={path}")
            return 1, {"type": "violation", "kind": "not-collected", "cause": "allocation-failure-swallowed", "props": [rec["property"]]}
        if not quiet:
            print(f"replay of {path}: no violation")
        return 0, {"type": "ok"}
    if rec.get("engine") == "nested":
        v = judge_nested(rec["property"], rec["args"], nested_child(rec["args"]))
        if v:
            if not quiet:
                print(f"violation kind={v[0]} cause={v[1]} msg={v[2]}")
                print(f"VIOLATION property={rec['property']} replay={path}")
            return 1, {"type": "violation", "kind": v[0], "cause": v[1], "msg": v[2], "props": [rec["property"]]}
        if not quiet:
            print(f"replay of {path}: no violation")
        return 0, {"type": "ok"}
    if rec.get("engine") == "hugeadopt":
        r = subprocess.run([D.BIN2, "huge", "--max-pow", "0", "--adopt-pow", str(rec.get("adopt_pow", 24))], stdout=subprocess.PIPE, stderr=subprocess.DEVNULL)
        aj = next((json.loads(l) for l in r.stdout.decode(errors="replace").splitlines() if l.startswith("{")), None)
        bad = aj is None and r.returncode < 0 or aj is not None and any(c["destroyed"] != 2 or c["count_errors"] for c in aj["adopt_cases"])
        if aj is None and r.returncode >= 0:
            D.eprint("HARNESS-ERROR hugeadopt replay produced no result")
            return 2, {}
        if bad:
            if not quiet:
                print(f"violation kind=not-collected cause=huge-parallel-adoptions msg={aj['adopt_cases'] if aj else 'process died'}")
                print(f"VIOLATION property={rec['property']} replay={path}")
            return 1, {"type": "violation", "kind": "not-collected", "cause": "huge-parallel-adoptions", "props": [rec["property"]]}
        if not quiet:
            print(f"replay of {path}: no violation")
        return 0, {"type": "ok"}
    if rec.get("engine") == "huge":
        r = subprocess.run([D.BIN2, "huge", "--max-pow", str(rec.get("max_pow", 32))], stdout=subprocess.PIPE, stderr=subprocess.DEVNULL)
        hj = next((json.loads(l) for l in r.stdout.decode(errors="replace").splitlines() if l.startswith("{")), None)
        if hj is None and r.returncode < 0:
            if not quiet:
                print(f"violation kind=crash cause=huge-strong-count msg=the process died with signal {-r.returncode}")
                print(f"VIOLATION property={rec['property']} replay={path}")
            return 1, {"type": "violation", "kind": "crash", "cause": "huge-strong-count", "props": [rec["property"]]}
        if hj is None:
            D.eprint("HARNESS-ERROR huge replay produced no result")
            return 2, {}
        key = "destroyed_while_held" if rec["property"] == "C01" else "count_errors"
        badc = [c for c in hj["cases"] if c[key]]
        if badc:
            if not quiet:
                print(f"violation kind={rec['kind']} cause={rec['cause']} msg=2^{badc[0]['pow']}+3 extra handles: {key}={badc[0][key]}")
                print(f"VIOLATION property={rec['property']} replay={path}")
            return 1, {"type": "violation", "kind": rec["kind"], "cause": rec["cause"], "props": [rec["property"]]}
        if not quiet:
            print(f"replay of {path}: no violation")
        return 0, {"type": "ok"}
    if rec.get("engine") == "soak":
        r = subprocess.run([D.BIN2, "soak", "--max-pow", str(rec.get("max_pow", 24))], stdout=subprocess.PIPE, stderr=subprocess.DEVNULL)
        sj = next((json.loads(l) for l in r.stdout.decode(errors="replace").splitlines() if l.startswith("{")), None)
        if sj is None:
            D.eprint("HARNESS-ERROR soak replay produced no result")
            return 2, {}
        if sj["failures"]:
            f0 = sj["failures"][0]
            if not quiet:
                print(f"violation kind=not-collected cause=long-lived-object-across-many-traces msg=witness last traced 2^{f0['pow']}{f0['off']:+d} traces earlier: {f0['what']}")
                print(f"VIOLATION property={rec['property']} replay={path}")
            return 1, {"type": "violation", "kind": "not-collected", "cause": "long-lived-object-across-many-traces", "props": [rec["property"]]}
        if not quiet:
            print(f"replay of {path}: no violation")
        return 0, {"type": "ok"}
    if rec.get("engine") == "bigdead":
        s = (rec["shape"], rec["n"], rec.get("chords", 0), rec["act"], rec["at"])
        v = judge_dead(s, dead_child(*s, rec.get("seed", 1)))
        if v:
            if not quiet:
                print(f"violation kind={v[0]} cause={v[1]} msg={v[2]}")
                print(f"VIOLATION property={rec['property']} replay={path}")
            return 1, {"type": "violation", "kind": v[0], "cause": v[1], "msg": v[2], "props": [rec["property"]]}
        if not quiet:
            print(f"replay of {path}: no violation")
        return 0, {"type": "ok"}
    if rec.get("engine") == "miri":
        os.makedirs(D.SCRATCH, exist_ok=True)
        path2 = os.path.join(D.SCRATCH, f"miri-replay-{os.getpid()}.txt")
        with open(path2, "w") as f:
            f.write(rec["history_line"] + "\n")
        env = dict(os.environ, MIRIFLAGS="-Zmiri-disable-isolation -Zmiri-ignore-leaks", CARGO_NET_OFFLINE="true")
        p = subprocess.run(["cargo", "+nightly", "miri", "run", "--offline"] + (["--target", rec["target"]] if rec.get("target") else []) + ["--", "replay-many", "--file", path2], cwd=D.SIM, env=env, stdout=subprocess.PIPE, stderr=subprocess.PIPE, text=True)
        os.remove(path2)
        if "Undefined Behavior" in p.stderr:
            if not quiet:
                i = p.stderr.find("error:")
                print("violation kind=undefined-behaviour cause=miri msg=" + " ".join(p.stderr[i:i + 600].split()))
                print(f"VIOLATION property={rec['property']} replay={path}")
            return 1, {"type": "violation", "kind": "undefined-behaviour", "cause": "miri", "props": [rec["property"]]}
        if not quiet:
            print(f"replay of {path}: no undefined behaviour reported")
        return 0, {"type": "ok"}
    D.eprint("HARNESS-ERROR unknown replay engine")
    return 2, {}
