#!/usr/bin/env python3
"""Driver for the cactusref deterministic-simulation checks.

  driver.py check <Cxx> <quick|thorough>
  driver.py replay <file>
  driver.py selftest determinism|mutants

exit 0: property held on everything explored (KNOWN-FINDING lines allowed)
exit 1: VIOLATION property=<id> replay=<path>
exit 2: harness / build error (never used to hide a violation)
"""
import array
import concurrent.futures as cf
import json
import os
import shutil
import subprocess
import sys
import tempfile
import time

VERIF = os.path.dirname(os.path.dirname(os.path.abspath(__file__)))
SIM = os.environ.get("VERIF_SELFTEST_SIM") or os.path.join(VERIF, "sim")
# The self-test runs the same driver against a scratch copy of the repository: it then
# overrides the binary and the output directories, and nothing under /verif or /repo
# is touched. Registered checks never set these.
BIN = os.environ.get("VERIF_SELFTEST_BIN") or os.path.join(VERIF, "target", "release", "cactus-sim")
# second build configuration: as a release user builds the crate (no debug assertions,
# no overflow checks); every other worker chunk runs on it
BIN2 = BIN.replace("/release/", "/relnd/")
# third configuration: like relnd, with cactusref's default feature `std` off
BIN3 = BIN.replace("/release/cactus-sim", "/nostd/relnd/cactus-sim")
# unoptimised build (opt-level 0): used by the scaling scenarios only
BIN0 = BIN.replace("/release/", "/debug/")
_OUT = os.environ.get("VERIF_SELFTEST_OUT")
EVID = os.path.join(_OUT, "evidence") if _OUT else os.path.join(VERIF, "evidence")
REPLAYS = os.path.join(_OUT, "replays") if _OUT else os.path.join(VERIF, "replays")
FINDINGS = os.path.join(VERIF, "known_findings.json")
SCRATCH = os.path.join(_OUT, "scratch") if _OUT else os.path.join(VERIF, "target", "scratch")

SIM_PROFILES = ["C01", "C02", "C03", "C04", "C05", "C06", "C07", "C08", "C09", "C10", "C11", "C12", "C13", "C14", "C16"]

# runs per tier (each run = one generated history; enumeration profiles execute many
# fault plans / layouts per run)
RUNS = {
    "quick": {"C15": 300000, "C07": 600000, "C16": 8000, "C01": 1000000, "C02": 1000000, "C03": 1000000, "C04": 800000, "C05": 800000, "C06": 800000, "C08": 600000,
              "C09": 50000, "C10": 40000, "C11": 120000, "C12": 800000, "C13": 800000, "C14": 800000},
    "thorough": {"C15": 10000000, "C07": 20000000, "C16": 150000, "C01": 30000000, "C02": 30000000, "C03": 30000000, "C04": 20000000, "C05": 20000000, "C06": 20000000, "C08": 20000000,
                 "C09": 400000, "C10": 300000, "C11": 3000000, "C12": 20000000, "C13": 20000000, "C14": 20000000},
}

LEVEL = {"C10": "fault_enumeration", "C11": "fault_enumeration", "C16": "fault_enumeration"}

RULES = {
    "C15": "small-history side of C15: seeded group shapes; after every call the first-time visits of all reachability traces of that call are bounded by (traces) x (objects alive); non-trivial = a group teardown happened; distinct = distinct call sequences among those",
    "C07": "seeded straight-line programs over the shared API surface (36 call kinds, values owning strong and Weak handles, leaking cycles, no adoption call) executed in lock step on cactusref and std::rc; every observation and the destructor log are compared; non-trivial = at least one value destroyed and >= 5 observations compared; distinct = distinct programs among those",
    "C16": "for each seeded base history every (destructor position, stored handle) pair is turned into two child-process scenarios: clone that handle / drop it early; the parent judges the child's exit status against the model's verdict on the target (destroyed or doomed => must abort cleanly; reachable => must succeed); non-trivial = the target was destroyed or dying; distinct = distinct (call sequence, position, slot, action)",
    "C01": "seeded histories (structured shape + random walk + drain) that respect 'recorded <= held'; non-trivial = a group or an object with adoption records was destroyed while the program still held handles that were then dereferenced and counted; distinct = distinct explicit call sequences among those",
    "C02": "seeded histories with Weak handles, parallel/unequal-degree adoption shapes, same-handle self adoption; non-trivial = a group teardown or zero-count-with-records teardown ran (members' mutual handles dropped while dead); distinct = distinct explicit call sequences among those",
    "C03": "seeded structured shapes with random choice of the last outside handle; non-trivial = the orphan rule of the property (closure over recorded adoptions, all handles internal) fired at least once, i.e. a lower-bound obligation on a whole group was generated and checked; distinct = distinct explicit call sequences among those",
    "C04": "seeded histories with Weak handles inside/outside values, always drained; non-trivial = a quiescent point (all objects destroyed, all Weak dropped) was reached after at least one adoption-aware teardown and the library heap was compared with zero; distinct = distinct call sequences among those",
    "C05": "seeded histories dense in Weak handles (program-held and stored in values); non-trivial = a Weak to a destroyed object was observed, or a Weak was upgraded from inside a destructor, or upgrade returned None; distinct = distinct call sequences among those",
    "C06": "seeded histories; after every call every count is compared with the handle ledger; non-trivial = counts were compared after an adoption-aware teardown; distinct = distinct call sequences among those",
    "C08": "seeded interleavings of adopt/unadopt (unmatched, redundant, through clones) with clones, drops, takes and collections; non-trivial = link-table snapshots with at least one entry were compared with the ledger; distinct = distinct call sequences among those",
    "C09": "each seeded fully-recorded history is executed under K heap layouts (placement seed, interleaved noise allocations); non-trivial = a group teardown happened; distinct = distinct (call sequence, layout) pairs among those",
    "C10": "for each seeded base history every destructor position is combined with re-entrant actions instantiated on every program-held handle (capped per position); non-trivial = the script executed at least one action inside a destructor; distinct = distinct (call sequence, script, position)",
    "C11": "for each seeded base history a panic is injected at every destructor position and the history continues afterwards; non-trivial = the panic fired; distinct = distinct (call sequence, position)",
    "C12": "seeded histories that call try_unwrap/make_mut/get_mut/into_raw/from_raw/increment/decrement_strong_count preferentially on objects with adoption records, then continue; non-trivial = such a call hit an object with records; distinct = distinct call sequences among those",
    "C13": "seeded histories in which 'recorded <= held' is broken only by removing a stored handle without unadopt; non-trivial = at least one elision left a stale record; distinct = distinct call sequences among those",
    "C14": "seeded histories with adopt-then-unadopt cycles; every clone/drop on an object with empty bookkeeping is bracketed by allocation and trace counters; non-trivial = at least one such bracket was evaluated in a history that also recorded adoptions; distinct = distinct call sequences among those",
}

ASSUME = [
    "the reference model (sim/src/model.rs) and the attribution rules of DESIGN.md section 4",
    "the allocator seam: page-per-block arena at a fixed address, PROT_NONE quarantine, domain flag separating library from harness allocations",
    "small-scope hypothesis: histories of <= 9 objects and <= ~80 calls are representative",
    "rustc nightly, hashbrown and rustc-hash behave as documented",
]


def eprint(*a):
    print(*a, file=sys.stderr, flush=True)


def build():
    if os.environ.get("VERIF_SELFTEST_BIN"):
        return
    env = dict(os.environ, CARGO_NET_OFFLINE="true")
    for args in (["--release"], ["--profile", "relnd"], ["--profile", "relnd", "--no-default-features", "--target-dir", os.path.join(os.path.dirname(os.path.dirname(BIN)), "nostd")], []):
        r = subprocess.run(["cargo", "build"] + args + ["--offline"], cwd=SIM, env=env, stdout=subprocess.PIPE, stderr=subprocess.STDOUT, text=True)
        if r.returncode != 0:
            eprint(r.stdout[-6000:])
            eprint("HARNESS-ERROR build failed")
            sys.exit(2)


def load_findings():
    if not os.path.exists(FINDINGS):
        return {"findings": [], "fixed": []}
    with open(FINDINGS) as f:
        return json.load(f)


def parse_ops(text):
    return [t.strip() for t in text.split(";") if t.strip() and not t.strip().startswith("[")]


def run_worker(args):
    profile, seed, lo, hi, thorough, digests, idx = args
    os.makedirs(SCRATCH, exist_ok=True)
    outp = os.path.join(SCRATCH, f"w-{profile}-{os.getpid()}-{idx}.out")
    dist = os.path.join(SCRATCH, f"w-{profile}-{os.getpid()}-{idx}.dist")
    exe = BIN
    if not digests:
        if idx % 3 == 1 and os.path.exists(BIN2):
            exe = BIN2
        elif idx % 3 == 2 and os.path.exists(BIN3):
            exe = BIN3
    cmd = [exe, "batch", "--profile", profile, "--seed", str(seed), "--from", str(lo), "--to", str(hi), "--distinct-out", dist]
    if thorough:
        cmd.append("--thorough")
    if digests:
        cmd.append("--digests")
    with open(outp, "wb") as fo:
        r = subprocess.run(cmd, stdout=fo, stderr=subprocess.PIPE)
    return (r.returncode, outp, dist, r.stderr.decode(errors="replace"))


def run_batches(profile, seed, total, thorough, jobs, digests=False, wall_cap=None):
    """Split [0,total) over `jobs` workers in interleaved chunks; return (violations, stats, distinct, orders, digests)."""
    chunk = max(1, (total + jobs * 4 - 1) // (jobs * 4))
    tasks = []
    lo = 0
    i = 0
    while lo < total:
        hi = min(total, lo + chunk)
        tasks.append((profile, seed, lo, hi, thorough, digests, i))
        lo = hi
        i += 1
    viol, stats, samples, dig = [], {}, [], {}
    distinct, orders = set(), set()
    harness_err = None
    with cf.ThreadPoolExecutor(max_workers=jobs) as ex:
        for code, outp, dist, err in ex.map(run_worker, tasks):
            if code == 2 or (code not in (0, 1)):
                harness_err = (code, err[-2000:])
            with open(outp, "rb") as f:
                for line in f:
                    line = line.decode(errors="replace").strip()
                    if not line.startswith("{"):
                        continue
                    try:
                        j = json.loads(line)
                    except Exception:
                        harness_err = (3, "unparsable worker line: " + line[:300])
                        continue
                    t = j.get("type")
                    if t == "violation":
                        viol.append(j)
                    elif t == "stats":
                        for k, v in j["stats"].items():
                            if k.endswith("_max"):
                                stats[k] = max(stats.get(k, 0), v)
                            else:
                                stats[k] = stats.get(k, 0) + v
                        if j.get("sample"):
                            samples.append(j["sample"])
                    elif t == "digest":
                        dig[j["run"]] = j["d"]
            for path, acc in ((dist, distinct), (dist + ".orders", orders)):
                if os.path.exists(path):
                    a = array.array("Q")
                    with open(path, "rb") as f:
                        a.frombytes(f.read())
                    acc.update(a)
                    os.remove(path)
            os.remove(outp)
    if harness_err:
        eprint("HARNESS-ERROR worker failed:", harness_err)
        sys.exit(2)
    return viol, stats, samples, len(distinct), len(orders), dig


def replay_once(profile, ops, faults, layouts, noise=False, timeout=60, ops_a=None, tail=None, log_trace=False, build="checked", reuse=False, shallow=False):
    exe = {"relnd": BIN2, "relnd-nostd": BIN3}.get(build, BIN)
    cmd = [exe if os.path.exists(exe) else BIN, "replay", "--profile", profile, "--layouts", ",".join(str(x) for x in layouts), "--faults", faults, "--ops", ";".join(ops)]
    if noise:
        cmd.append("--layout-noise")
    if log_trace:
        cmd += ["--log-mode", str(int(log_trace))]
    if reuse:
        cmd.append("--addr-reuse")
    if shallow:
        cmd += ["--clone-mode", str(int(shallow))]
    if ops_a is not None:
        cmd += ["--ops-a", ";".join(ops_a), "--tail", str(tail)]
    try:
        r = subprocess.run(cmd, stdout=subprocess.PIPE, stderr=subprocess.PIPE, timeout=timeout)
    except subprocess.TimeoutExpired:
        return {"type": "timeout"}
    for line in r.stdout.decode(errors="replace").splitlines():
        if line.startswith("{"):
            try:
                j = json.loads(line)
            except Exception:
                continue
            if j.get("type") in ("violation", "ok"):
                j["_code"] = r.returncode
                return j
    return {"type": "none", "_code": r.returncode, "_err": r.stderr.decode(errors="replace")[-500:]}


def same_failure(j, prop, kind, cause):
    return j.get("type") == "violation" and prop in j.get("props", []) and j.get("kind") == kind and j.get("cause") == cause


def split_faults(text):
    return [p for p in text.split("|") if p.strip()]


def minimise(prop, v, budget_s=120):
    profile = v["profile"]
    ops = parse_ops(v["ops"])
    faults = v["faults"]
    layouts = v["layouts"]
    noise = bool(v.get("noise", 0)) or (profile == "C09" and v.get("exec", 0) % 2 == 1)
    kind, cause = v["kind"], v["cause"]
    t0 = time.time()
    if v.get("ops_a"):
        return None  # a pair of routes to one ledger: deleting calls would change the ledger

    lt = int(v.get("log_trace", 0))
    bd = v.get("build", "checked")
    ru = bool(v.get("addr_reuse", 0))
    sc = int(v.get("shallow_clone", 0))

    def fails(o, f, l):
        if time.time() - t0 > budget_s:
            return False
        return same_failure(replay_once(profile, o, f, l, noise, log_trace=lt, build=bd, reuse=ru, shallow=sc), prop, kind, cause)

    if not fails(ops, faults, layouts):
        return None
    if ops and ops[0].startswith("Raw "):
        # drop-glue-free payload case: "Raw k;E a>b ...;X extra...;O order..." - shrink edges and releases
        parts = {o.split()[0]: o.split()[1:] for o in ops}
        def build(pp):
            return ["Raw " + " ".join(pp["Raw"]), "T " + " ".join(pp.get("T", ["0"])), "E " + " ".join(pp.get("E", [])), "X " + " ".join(pp.get("X", [])), "O " + " ".join(pp.get("O", [])), "W " + " ".join(pp.get("W", []))]
        for key in ("E", "O"):
            i = 0
            while i < len(parts.get(key, [])):
                cand = dict(parts)
                cand[key] = parts[key][:i] + parts[key][i + 1:]
                if fails(build(cand), faults, layouts):
                    parts = cand
                else:
                    i += 1
        ops = build(parts)
        final = replay_once(profile, ops, faults, layouts, noise, log_trace=lt, build=bd, reuse=ru, shallow=sc)
        if not same_failure(final, prop, kind, cause):
            return None
        return {"ops": ops, "faults": faults, "layouts": layouts, "noise": noise, "final": final}
    # 1. cut the tail after the failing call
    step = v.get("step", len(ops) - 1)
    # `step` counts top-level calls; inline destructor-side calls (`@k ...`) are interleaved
    pos, seen = len(ops), -1
    for i, o in enumerate(ops):
        if not o.startswith("@"):
            seen += 1
            if seen == step:
                pos = i + 1
    while pos < len(ops) and ops[pos].startswith("@"):
        pos += 1
    cut = ops[:pos]
    if len(cut) < len(ops) and fails(cut, faults, layouts):
        ops = cut
    # 2. ddmin over calls
    n = 2
    while len(ops) >= 2:
        size = max(1, len(ops) // n)
        removed = False
        i = 0
        while i < len(ops):
            cand = ops[:i] + ops[i + size:]
            if cand and fails(cand, faults, layouts):
                ops = cand
                removed = True
            else:
                i += size
        if not removed:
            if size == 1:
                break
            n = min(len(ops), n * 2)
        else:
            n = max(2, n - 1)
    # 3. simplify the fault plan
    parts = split_faults(faults)
    i = 0
    while i < len(parts):
        cand = parts[:i] + parts[i + 1:]
        if fails(ops, "|".join(cand), layouts):
            parts = cand
        else:
            i += 1
    for i, p in enumerate(parts):
        if p.startswith("script ") and ":" in p:
            head, body = p.split(":", 1)
            acts = [a for a in body.split(",") if a.strip()]
            j = 0
            while j < len(acts) and len(acts) > 1:
                cand = acts[:j] + acts[j + 1:]
                cp = parts[:i] + [head + ":" + ",".join(cand)] + parts[i + 1:]
                if fails(ops, "|".join(cp), layouts):
                    acts = cand
                    parts = cp
                else:
                    j += 1
    faults = "|".join(parts)
    # 4. simpler operations: unrecorded store instead of recorded (not for C09, whose
    #    precondition is that every stored handle is recorded)
    for i, o in enumerate(list(ops) if profile != "C09" else []):
        t = o.split()
        if t[0] == "Store" and len(t) > 3 and t[3] == "1":
            cand = ops[:i] + [" ".join(t[:3] + ["0"])] + ops[i + 1:]
            if fails(cand, faults, layouts):
                ops = cand
    # 5. small layout seeds
    if len(layouts) == 1:
        for l in range(0, 8):
            if fails(ops, faults, [l]):
                layouts = [l]
                break
    # 6. one more single-removal pass
    i = 0
    while i < len(ops) and len(ops) > 1:
        cand = ops[:i] + ops[i + 1:]
        if fails(cand, faults, layouts):
            ops = cand
        else:
            i += 1
    final = replay_once(profile, ops, faults, layouts, noise, log_trace=lt, build=bd, reuse=ru, shallow=sc)
    if not same_failure(final, prop, kind, cause):
        return None
    return {"ops": ops, "faults": faults, "layouts": layouts, "noise": noise, "final": final}


def write_replay(prop, v, mini):
    os.makedirs(REPLAYS, exist_ok=True)
    path = os.path.join(REPLAYS, f"{prop}-{v['profile']}-seed{v['seed']}-run{v['run']}-exec{v.get('exec', 0)}.json")
    if mini:
        ops, faults, layouts, noise, final = mini["ops"], mini["faults"], mini["layouts"], mini["noise"], mini["final"]
    else:
        ops, faults, layouts, final = parse_ops(v["ops"]), v["faults"], v["layouts"], v
        noise = bool(v.get("noise", 0)) or (v["profile"] == "C09" and v.get("exec", 0) % 2 == 1)
    rec = {
        "property": prop, "profile": v["profile"], "engine": "sim", "kind": v["kind"], "cause": v["cause"],
        "seed": v["seed"], "run": v["run"], "exec": v.get("exec", 0), "layouts": layouts, "layout_noise": noise,
        "calls": ops, "faults": faults, "minimised": bool(mini), "original_calls": len(parse_ops(v["ops"])),
        "calls_a": parse_ops(v["ops_a"]) if v.get("ops_a") else None, "tail": v.get("tail"), "log_trace": int(v.get("log_trace", 0)), "build": v.get("build", "checked"), "addr_reuse": bool(v.get("addr_reuse", 0)), "shallow_clone": int(v.get("shallow_clone", 0)),
        "expect": {"kind": final.get("kind"), "cause": final.get("cause"), "msg": final.get("msg"), "props": final.get("props")},
    }
    with open(path, "w") as f:
        json.dump(rec, f, indent=1)
    return path


def do_replay_file(path, quiet=False):
    with open(path) as f:
        rec = json.load(f)
    eng = rec.get("engine", "sim")
    if eng != "sim":
        import engines
        return engines.replay(rec, path, quiet)
    j = replay_once(rec["profile"], rec["calls"], rec.get("faults", ""), rec["layouts"], rec.get("layout_noise", False), ops_a=rec.get("calls_a"), tail=rec.get("tail"), log_trace=rec.get("log_trace", False), build=rec.get("build", "checked"), reuse=rec.get("addr_reuse", False), shallow=rec.get("shallow_clone", False))
    prop = rec["property"]
    if j.get("type") == "violation" and prop in j.get("props", []):
        if not quiet:
            print(f"violation kind={j['kind']} cause={j['cause']} step={j.get('step')} msg={j.get('msg')}")
            print(f"VIOLATION property={prop} replay={path}")
        return 1, j
    if j.get("type") in ("none", "timeout"):
        eprint("HARNESS-ERROR replay produced no verdict:", j)
        return 2, j
    if not quiet:
        print(f"replay of {path}: no violation of {prop} ({j.get('type')}: {j.get('kind', '')})")
    return 0, j


MIRI_32 = "i686-unknown-linux-gnu"
MIRI_STATE = {}


def miri_crosscheck(prop, seed, n_hist, jobs, thorough=True):
    """Best-effort cross-check (thorough tier of C02): the same generated histories,
    replayed under Miri (system allocator, harness observation passes off). Sees what
    the arena cannot: reads of uninitialised or moved-out memory that do not fault,
    aliasing violations. Returns (histories replayed, list of (history line, report))."""
    os.makedirs(SCRATCH, exist_ok=True)
    r = subprocess.run([BIN, "dump", "--profile", prop, "--seed", str(seed), "--from", "0", "--to", str(n_hist)] + (["--thorough"] if thorough else []), stdout=subprocess.PIPE, stderr=subprocess.PIPE, text=True)
    lines = [l for l in r.stdout.splitlines() if l.count("\t") == 2]
    if not lines:
        return 0, [], "no histories dumped"
    k = max(1, min(jobs, len(lines) // 8))
    files = []
    for i in range(k):
        path = os.path.join(SCRATCH, f"miri-{prop}-{os.getpid()}-{i}.txt")
        with open(path, "w") as f:
            f.write("\n".join(lines[i::k]) + "\n")
        files.append(path)
    env = dict(os.environ, MIRIFLAGS="-Zmiri-disable-isolation -Zmiri-ignore-leaks", CARGO_NET_OFFLINE="true")
    # build the interpreter binary once, then run the shards in parallel
    b = subprocess.run(["cargo", "+nightly", "miri", "run", "--offline", "--", "replay-many", "--file", "/dev/null"], cwd=SIM, env=env, stdout=subprocess.PIPE, stderr=subprocess.PIPE, text=True)
    if "replayed" not in b.stdout:
        return 0, [], "miri unavailable: " + (b.stderr.strip().splitlines() or ["?"])[-1][:200]
    # pointer width is an axis no native run varies: every second shard runs on a 32-bit
    # target (usize and pointer alignment 4) if the interpreter can build its sysroot
    b32 = subprocess.run(["cargo", "+nightly", "miri", "run", "--offline", "--target", MIRI_32, "--", "replay-many", "--file", "/dev/null"], cwd=SIM, env=env, stdout=subprocess.PIPE, stderr=subprocess.PIPE, text=True)
    have32 = "replayed" in b32.stdout
    MIRI_STATE["i686"] = have32

    def shard(path):
        t32 = have32 and files.index(path) % 2 == 1
        # (a single very long history can take the interpreter tens of minutes: a shard that
        # runs out of time counts as 'not replayed', never as a report)
        try:
            p = subprocess.run(["cargo", "+nightly", "miri", "run", "--offline"] + (["--target", MIRI_32] if t32 else []) + ["--", "replay-many", "--file", path], cwd=SIM, env=env, stdout=subprocess.PIPE, stderr=subprocess.PIPE, text=True, timeout=int(os.environ.get("VERIF_MIRI_SHARD_TIMEOUT", "1500")))
        except subprocess.TimeoutExpired as e:
            out = e.stdout.decode(errors="replace") if isinstance(e.stdout, bytes) else (e.stdout or "")
            lines_done = [json.loads(l)["line"] for l in out.splitlines() if '"progress"' in l]
            MIRI_STATE["timeouts"] = MIRI_STATE.get("timeouts", 0) + 1
            return (lines_done[-1] if lines_done else 0), None
        done, last = 0, -1
        for l in p.stdout.splitlines():
            if '"progress"' in l:
                last = json.loads(l)["line"]
            if '"replayed"' in l:
                done = json.loads(l)["replayed"]
        report = None
        if "Undefined Behavior" in p.stderr or (p.returncode > 0 and done == 0):
            idx = p.stderr.find("error:")
            report = p.stderr[idx: idx + 1200]
            with open(path) as f:
                hl = f.read().splitlines()
            return (last if last >= 0 else 0), (hl[last] if 0 <= last < len(hl) else None, ("[target " + MIRI_32 + "] " if t32 else "") + report)
        return done, None

    total, bad = 0, []
    with cf.ThreadPoolExecutor(max_workers=k) as ex:
        for done, rep in ex.map(shard, files):
            total += done
            if rep:
                bad.append(rep)
    for f in files:
        os.remove(f)
    return total, bad, None


def finding_matches(fd, prop, v):
    return fd["property"] == prop and v.get("kind") in fd["kinds"] and fd["cause"] == v.get("cause")


def regress_corpus(prop):
    """Replay files of repaired defects (and seeded examples that must pass): each
    is re-executed by the check of its property on every run."""
    d = os.path.join(VERIF, "findings", "regress")
    out = []
    if os.path.isdir(d):
        for n in sorted(os.listdir(d)):
            if n.endswith(".json"):
                with open(os.path.join(d, n)) as f:
                    if json.load(f).get("property") == prop:
                        out.append(os.path.join(d, n))
    return out


def write_evidence(prop, tier, seed, level, coverage, wall, nviol, extra_assume=None):
    os.makedirs(EVID, exist_ok=True)
    ev = {
        "property_id": prop, "tier": tier, "seed": seed, "level": level, "coverage": coverage,
        "assumptions": ASSUME + (extra_assume or []), "wall_s": round(wall, 2), "violations": nviol,
    }
    with open(os.path.join(EVID, f"{prop}.json"), "w") as f:
        json.dump(ev, f, indent=1)


def check_sim(prop, tier, seed, jobs):
    t0 = time.time()
    thorough = tier == "thorough"
    total = RUNS[tier][prop]
    scale = float(os.environ.get("VERIF_SCALE", "1"))
    total = max(16, int(total * scale))
    soak_proc = None
    if prop == "C03":
        # one long-lived process: witness rings across 2^8 .. 2^24 (thorough: 2^32) traces
        soak_proc = subprocess.Popen([BIN2, "soak", "--max-pow", os.environ.get("VERIF_SOAK_POW") or ("32" if thorough and scale >= 1 else "24")], stdout=subprocess.PIPE, stderr=subprocess.DEVNULL)
        import atexit
        atexit.register(lambda: soak_proc.poll() is None and soak_proc.kill())
        # 2^8 .. 2^24 (thorough: 2^32) parallel adoptions of one pair, then the pair is orphaned
        adopt_proc = subprocess.Popen([BIN2, "huge", "--max-pow", "0", "--adopt-pow", os.environ.get("VERIF_ADOPT_POW") or ("32" if thorough and scale >= 1 else "24")], stdout=subprocess.PIPE, stderr=subprocess.DEVNULL)
        atexit.register(lambda: adopt_proc.poll() is None and adopt_proc.kill())
    viol, stats, samples, ndist, norders, _ = run_batches(prop, seed, total, thorough, jobs)
    known = load_findings()
    mine = [v for v in viol if prop in v.get("props", [])]
    others = [v for v in viol if prop not in v.get("props", [])]
    hit = {}
    unlisted = []
    for v in mine:
        fd = next((fd for fd in known["findings"] if finding_matches(fd, prop, v)), None)
        if fd:
            hit[fd["id"]] = hit.get(fd["id"], 0) + 1
        else:
            unlisted.append(v)
    # canonical replays of the recorded findings for this property
    for fd in known["findings"]:
        if fd["property"] != prop:
            continue
        still = 0
        for rel in fd["replays"]:
            rp = os.path.join(VERIF, rel)
            code, j = do_replay_file(rp, quiet=True)
            if code == 2:
                sys.exit(2)
            if code == 1 and finding_matches(fd, prop, j):
                still += 1
            elif code == 1:
                rec = json.load(open(rp))
                unlisted.append(dict(j, profile=rec["profile"], seed=0, run=0, ops=";".join(rec["calls"]), faults=rec.get("faults", ""), layouts=rec["layouts"]))
        if still or hit.get(fd["id"]):
            print(f"KNOWN-FINDING: property={prop} {fd['what']} [{fd['id']}: {still}/{len(fd['replays'])} canonical replays still fail; {hit.get(fd['id'], 0)} generated histories hit it in this run]")
    # regression corpus: repaired defects must stay repaired
    regress_n = 0
    for rp in regress_corpus(prop):
        regress_n += 1
        code, j = do_replay_file(rp, quiet=True)
        if code == 2:
            sys.exit(2)
        if code == 1:
            rec = json.load(open(rp))
            unlisted.insert(0, dict(j, profile=rec["profile"], seed=0, run=0, ops=";".join(rec["calls"]), faults=rec.get("faults", ""), layouts=rec["layouts"]))
    wall = time.time() - t0
    execs = stats.get("execs", 0)
    other_kinds = {}
    for v in others:
        k = "/".join(v.get("props", [])) + ":" + v["kind"]
        other_kinds[k] = other_kinds.get(k, 0) + 1
    faults = {k[2:]: v for k, v in stats.items() if k.startswith("f_")}
    probes = {k[2:]: v for k, v in stats.items() if k.startswith("p_")}
    opsmix = {k[3:]: v for k, v in stats.items() if k.startswith("op_")}
    coverage = {
        "evaluations": execs,
        "distinct_nontrivial": ndist,
        "rule": RULES[prop],
        "samples": samples[:5] if samples else [{"note": "no non-trivial case in this run"}],
        "generated_histories": stats.get("runs", 0),
        "nontrivial_executions": stats.get("nontrivial", 0),
        "api_calls_executed": stats.get("calls", 0),
        "logical_steps": stats.get("steps", 0) + stats.get("dtor_events", 0),
        "simulated_time_note": "the system has no clock; simulated time is reported as logical steps (top-level calls + destructor events)",
        "runs_per_hour": int(execs / wall * 3600) if wall > 0 else 0,
        "seed_range": [0, total],
        "fault_counts_fired": faults,
        "probe_counts": probes,
        "call_mix": opsmix,
        "distinct_teardown_interleavings": norders,
        "interleaving_measure": "distinct (call sequence, member destruction order) pairs over executions with a group teardown",
        "known_findings_hit": hit,
        "regression_replays_executed": regress_n,
        "other_property_violations": other_kinds,
        "components": {"real": ["cactusref (all modules, built from /repo working tree with --cfg cactusref_verif; three build configurations: debug assertions + overflow checks on; both off; both off and cactusref's `std` feature off; worker chunks alternate)", "hashbrown", "rustc-hash"] + (["std::rc (reference implementation)"] if prop == "C07" else []),
                       "stub": ["payload value type (instrumented Node)", "global allocator (layout-scheduling arena; freed addresses never reused, except in one run of six where they are reused LIFO per size class)", "log backend (counting sink; Trace level in 1 run of 8, Off otherwise)"]},
        "exhaustive": False,
    }
    if prop == "C03" and not unlisted:
        import engines
        nbig, fail = engines.big_shapes(prop, tier, seed, jobs)
        coverage["big_shape_scenarios"] = nbig
        coverage["big_shape_note"] = "orphaned groups of 300 to 5000 (thorough: 100000) members in eight shapes incl. a mutual star, each in a child process; all members must be destroyed exactly once by the last outside drop"
        if fail:
            j, (kind, cause, msg) = fail
            os.makedirs(REPLAYS, exist_ok=True)
            path = os.path.join(REPLAYS, f"C03-{j['shape']}-{j['n']}.json")
            with open(path, "w") as f:
                json.dump({"property": "C03", "engine": "scale", "kind": kind, "cause": cause, "shape": j["shape"], "n": j["n"], "stack_kb": j.get("stack_kb", 128), "chords": j.get("chords", 0), "selfsame_every": j.get("selfsame_every", 0), "seed": j.get("seed", seed), "expect": {"kind": kind, "cause": cause, "msg": msg}}, f, indent=1)
            write_evidence(prop, tier, seed, LEVEL.get(prop, "exploration"), coverage, time.time() - t0, 1)
            print(f"violation kind={kind} cause={cause} msg={msg}")
            print(f"VIOLATION property={prop} replay={path}")
            return 1
    if prop in ("C01", "C03") and not unlisted:
        import engines
        nh, fail = engines.held_scenarios(prop, tier, seed, jobs)
        coverage["held_member_sweeps"] = nh
        coverage["held_member_note"] = "strongly connected fully recorded shapes of 66..260 (thorough 3000) objects in child processes; for every member (or 300 sampled) X: X is held from outside, the main handle is released (C01: nothing may be destroyed, X's count exact), then X is released (C03: everything destroyed once)"
        if fail:
            (shape, n, chords, samples), (kind, cause, msg) = fail
            os.makedirs(REPLAYS, exist_ok=True)
            path = os.path.join(REPLAYS, f"{prop}-held-{shape}-{n}.json")
            with open(path, "w") as f:
                json.dump({"property": prop, "engine": "held", "kind": kind, "cause": cause, "shape": shape, "n": n, "chords": chords, "samples": samples, "seed": seed, "expect": {"kind": kind, "cause": cause, "msg": msg}}, f, indent=1)
            write_evidence(prop, tier, seed, LEVEL.get(prop, "exploration"), coverage, time.time() - t0, 1)
            print(f"violation kind={kind} cause={cause} msg={msg}")
            print(f"VIOLATION property={prop} replay={path}")
            return 1
    if prop == "C03" and not unlisted:
        import engines
        na, nfired, fail = engines.allocfail_scenarios(seed)
        coverage["allocation_failure_scenarios"] = {"runs": na, "faults_fired": nfired, "note": "every allocation the library requests during the release of the last outside handle of a ring (2..40 members, with chords) is refused in turn; the process may die, the release must not return with the ring kept"}
        if fail:
            (n_, chords_, at_), (kind, cause, msg) = fail
            os.makedirs(REPLAYS, exist_ok=True)
            path = os.path.join(REPLAYS, f"C03-allocfail-{n_}-{chords_}-{at_}.json")
            with open(path, "w") as f:
                json.dump({"property": "C03", "engine": "allocfail", "kind": kind, "cause": cause, "n": n_, "chords": chords_, "at": at_, "seed": seed, "expect": {"kind": kind, "cause": cause, "msg": msg}}, f, indent=1)
            write_evidence(prop, tier, seed, LEVEL.get(prop, "exploration"), coverage, time.time() - t0, 1)
            print(f"violation kind={kind} cause={cause} msg={msg}")
            print(f"VIOLATION property={prop} replay={path}")
            return 1
    if prop in ("C03", "C04", "C10") and not unlisted:
        import engines
        nn, fail = engines.nested_scenarios(prop, tier, seed, jobs)
        coverage["nested_big_teardown_scenarios"] = nn
        coverage["nested_big_teardown_note"] = "chains of fully recorded rings (2 to 5000, thorough 40000+ members) where a member's value holds the last outside handle of the next ring, so each collection releases the next from inside a destructor; C03/C10 also: the last outside handle in a thread-local released at thread exit. Judged: exactly-once destruction of everything (C03, C10), every allocation returned (C04), process completes"
        if fail:
            a, (kind, cause, msg) = fail
            os.makedirs(REPLAYS, exist_ok=True)
            path = os.path.join(REPLAYS, f"{prop}-nested-{'-'.join(a).replace(',', '_').replace('--', '')}.json")
            with open(path, "w") as f:
                json.dump({"property": prop, "engine": "nested", "kind": kind, "cause": cause, "args": a, "expect": {"kind": kind, "cause": cause, "msg": msg}}, f, indent=1)
            write_evidence(prop, tier, seed, LEVEL.get(prop, "exploration"), coverage, time.time() - t0, 1)
            print(f"violation kind={kind} cause={cause} msg={msg}")
            print(f"VIOLATION property={prop} replay={path}")
            return 1
    if prop in ("C01", "C06") and not unlisted:
        hp = subprocess.run([BIN2, "huge", "--max-pow", os.environ.get("VERIF_HUGE_POW") or ("34" if thorough else "32")], stdout=subprocess.PIPE, stderr=subprocess.DEVNULL)
        hj = next((json.loads(l) for l in hp.stdout.decode(errors="replace").splitlines() if l.startswith("{")), None)
        if hj is None and hp.returncode < 0:
            # library code running in the child died by a signal (abort, fault): that is a verdict
            os.makedirs(REPLAYS, exist_ok=True)
            path = os.path.join(REPLAYS, f"{prop}-huge-crash.json")
            msg = f"ring a<->b with up to 2^32+3 extra strong handles to a: the process died with signal {-hp.returncode} while handles were counted and released"
            with open(path, "w") as f:
                json.dump({"property": prop, "engine": "huge", "kind": "crash", "cause": "huge-strong-count", "max_pow": 32, "expect": {"msg": msg}}, f, indent=1)
            write_evidence(prop, tier, seed, LEVEL.get(prop, "exploration"), coverage, time.time() - t0, 1)
            print(f"violation kind=crash cause=huge-strong-count msg={msg}")
            print(f"VIOLATION property={prop} replay={path}")
            return 1
        if hj is None:
            eprint(f"HARNESS-ERROR {prop}: the huge-count process produced no result (code {hp.returncode})")
            return 2
        coverage["huge_handle_counts"] = {"cases": hj["cases"], "note": "fully recorded 2-ring, 2^p + 3 extra strong handles to one member through the raw API (p = 8 .. 32, thorough 34), then the other handles are released: counts exact at every step, nothing destroyed while the extra handles exist"}
        key = "destroyed_while_held" if prop == "C01" else "count_errors"
        badc = [c for c in hj["cases"] if c[key]]
        if badc:
            c0 = badc[0]
            os.makedirs(REPLAYS, exist_ok=True)
            path = os.path.join(REPLAYS, f"{prop}-huge-pow{c0['pow']}.json")
            kind, cause = ("premature-destruction", "huge-strong-count") if prop == "C01" else ("count-mismatch", "huge-strong-count")
            msg = f"ring a<->b with 2^{c0['pow']}+3 extra strong handles to a: " + (f"{c0['destroyed_while_held']} observations of a destroyed member while those handles exist" if prop == "C01" else f"{c0['count_errors']} wrong strong counts")
            with open(path, "w") as f:
                json.dump({"property": prop, "engine": "huge", "kind": kind, "cause": cause, "max_pow": c0["pow"], "expect": {"msg": msg}}, f, indent=1)
            write_evidence(prop, tier, seed, LEVEL.get(prop, "exploration"), coverage, time.time() - t0, 1)
            print(f"violation kind={kind} cause={cause} msg={msg}")
            print(f"VIOLATION property={prop} replay={path}")
            return 1
    if soak_proc is not None:
        try:
            ao, _ = adopt_proc.communicate(timeout=3600)
        except subprocess.TimeoutExpired:
            adopt_proc.kill()
            ao = b""
        aj = next((json.loads(l) for l in ao.decode(errors="replace").splitlines() if l.startswith("{")), None)
        if aj is None and (adopt_proc.returncode or 0) >= 0:
            eprint(f"HARNESS-ERROR C03: the parallel-adoption process produced no result (code {adopt_proc.returncode})")
            return 2
        bad_ad = None
        if aj is None:
            bad_ad = f"the process died with signal {-adopt_proc.returncode} while one pair was adopted up to 2^32+3 times and then orphaned"
        else:
            coverage["huge_parallel_adoptions"] = {"cases": aj["adopt_cases"], "note": "a <-> b fully recorded, a owning 2^p + 3 handles to b (raw API), each recorded; both outside handles released: the pair must be destroyed"}
            for c in aj["adopt_cases"]:
                if c["destroyed"] != 2 or c["count_errors"]:
                    bad_ad = f"a <-> b with 2^{c['pow']}+3 recorded parallel adoptions a->b: {c['destroyed']} of 2 objects destroyed after the last outside handle was released, {c['count_errors']} wrong counts"
                    break
        if bad_ad and not unlisted:
            os.makedirs(REPLAYS, exist_ok=True)
            path = os.path.join(REPLAYS, "C03-huge-adoptions.json")
            with open(path, "w") as f:
                json.dump({"property": "C03", "engine": "hugeadopt", "kind": "not-collected", "cause": "huge-parallel-adoptions", "adopt_pow": 32 if thorough else 24, "expect": {"msg": bad_ad}}, f, indent=1)
            write_evidence(prop, tier, seed, LEVEL.get(prop, "exploration"), coverage, time.time() - t0, 1)
            print(f"violation kind=not-collected cause=huge-parallel-adoptions msg={bad_ad}")
            print(f"VIOLATION property={prop} replay={path}")
            return 1
        try:
            so, _ = soak_proc.communicate(timeout=3 * 3600)
        except subprocess.TimeoutExpired:
            soak_proc.kill()
            so = b""
        sj = next((json.loads(l) for l in so.decode(errors="replace").splitlines() if l.startswith("{")), None)
        if sj is None:
            eprint(f"HARNESS-ERROR C03: the soak process produced no result (code {soak_proc.returncode})")
            return 2
        coverage["soak"] = {"traces_in_one_process": sj["traces"], "witness_rings": sj["witnesses"], "wall_ms": sj["wall_ms"], "note": "witness rings traced once, left untouched for 2^p + d further traces (p in 8,16,24[,32]; d in -3..3), then their last outside handle is released: must be destroyed in full"}
        if sj["failures"] and not unlisted:
            f0 = sj["failures"][0]
            os.makedirs(REPLAYS, exist_ok=True)
            path = os.path.join(REPLAYS, f"C03-soak-pow{f0['pow']}.json")
            msg = f"a fully recorded 2-ring last traced 2^{f0['pow']}{f0['off']:+d} traces earlier: {f0['what']} ({len(sj['failures'])} of {sj['witnesses']} witnesses failed)"
            with open(path, "w") as f:
                json.dump({"property": "C03", "engine": "soak", "kind": "not-collected", "cause": "long-lived-object-across-many-traces", "max_pow": f0["pow"], "expect": {"msg": msg, "failures": sj["failures"]}}, f, indent=1)
            write_evidence(prop, tier, seed, LEVEL.get(prop, "exploration"), coverage, time.time() - t0, 1)
            print(f"violation kind=not-collected cause=long-lived-object-across-many-traces msg={msg}")
            print(f"VIOLATION property={prop} replay={path}")
            return 1
    if prop == "C16" and not unlisted:
        import engines
        nbig, fail = engines.big_dead(tier, seed, jobs)
        coverage["big_group_dead_handle_scenarios"] = nbig
        coverage["big_group_dead_handle_note"] = "orphaned groups of 1100 to 5000 (thorough: 70000) members (ring with chords, mutual star, ring of cliques), each in a child process; from a chosen destructor on, every destructor clones (process must abort) or drops (must be a no-op, everything destroyed exactly once) its stored handles to dying members"
        if fail:
            (shape, n, chords, act, at), (kind, cause, msg) = fail
            os.makedirs(REPLAYS, exist_ok=True)
            path = os.path.join(REPLAYS, f"C16-bigdead-{shape}-{n}-{act}-{at}.json")
            with open(path, "w") as f:
                json.dump({"property": "C16", "engine": "bigdead", "kind": kind, "cause": cause, "shape": shape, "n": n, "chords": chords, "act": act, "at": at, "seed": seed, "expect": {"kind": kind, "cause": cause, "msg": msg}}, f, indent=1)
            write_evidence(prop, tier, seed, LEVEL.get(prop, "exploration"), coverage, time.time() - t0, 1)
            print(f"violation kind={kind} cause={cause} msg={msg}")
            print(f"VIOLATION property={prop} replay={path}")
            return 1
    if prop == "C02" and (thorough or os.environ.get("VERIF_MIRI_IN_QUICK")) and not unlisted:
        n_m = int(os.environ.get("VERIF_MIRI_HISTORIES", "640"))
        total_m, bad_m, note = miri_crosscheck(prop, seed, n_m, jobs)
        coverage["miri_crosscheck"] = {"histories_replayed_under_miri": total_m, "undefined_behaviour_reports": len(bad_m), "half_of_the_shards_on_32_bit_target": bool(MIRI_STATE.get("i686")), "shards_stopped_at_their_time_limit": MIRI_STATE.get("timeouts", 0), "note": note or "the interpreter's own allocator (exact alignment), observation passes off, histories of more than 400 calls left to the native runs; -Zmiri-ignore-leaks"}
        if bad_m:
            hist, report = bad_m[0]
            os.makedirs(REPLAYS, exist_ok=True)
            path = os.path.join(REPLAYS, f"C02-miri-seed{seed}.json")
            with open(path, "w") as f:
                json.dump({"property": "C02", "engine": "miri", "profile": "C02", "history_line": hist, "target": MIRI_32 if report.startswith("[target ") else None, "kind": "undefined-behaviour", "cause": "miri", "expect": {"report": report}}, f, indent=1)
            write_evidence(prop, tier, seed, LEVEL.get(prop, "exploration"), coverage, time.time() - t0, len(bad_m))
            print("violation kind=undefined-behaviour cause=miri msg=" + " ".join(report.split())[:300])
            print(f"VIOLATION property={prop} replay={path}")
            return 1
    if unlisted:
        unlisted.sort(key=lambda v: (v.get("seed", 1) != 0, len(v.get("ops", ""))))
        v = unlisted[0]
        mini = minimise(prop, v)
        path = write_replay(prop, v, mini)
        code, j = do_replay_file(path, quiet=True)
        write_evidence(prop, tier, seed, LEVEL.get(prop, "exploration"), coverage, time.time() - t0, len(unlisted))
        print(f"violation kind={v['kind']} cause={v['cause']} msg={v.get('msg')}")
        print(f"  {len(unlisted)} violating executions in this run; minimised to {len(json.load(open(path))['calls'])} calls; replay reproduces: {code == 1}")
        print(f"VIOLATION property={prop} replay={path}")
        return 1
    # reach: a probe stuck at zero in a profile that needs it is a harness error
    if stats.get("nontrivial", 0) == 0 or ndist < 2:
        eprint(f"HARNESS-ERROR {prop}: no non-trivial case was generated (nontrivial={stats.get('nontrivial', 0)})")
        write_evidence(prop, tier, seed, LEVEL.get(prop, "exploration"), coverage, wall, 0)
        return 2
    write_evidence(prop, tier, seed, LEVEL.get(prop, "exploration"), coverage, wall, 0)
    print(f"{prop} {tier}: held on {execs} executions of {stats.get('runs', 0)} histories ({ndist} distinct non-trivial), {wall:.1f}s" + (f"; other-property violations seen: {other_kinds}" if other_kinds else ""))
    return 0


def main():
    if len(sys.argv) < 2:
        eprint(__doc__)
        sys.exit(2)
    cmd = sys.argv[1]
    seed = int(os.environ.get("VERIF_SEED", "1"))
    jobs = int(os.environ.get("VERIF_JOBS", "16"))
    if cmd == "check":
        prop, tier = sys.argv[2], sys.argv[3]
        tier = os.environ.get("VERIF_TIER", tier) if tier not in ("quick", "thorough") else tier
        build()
        if prop in SIM_PROFILES:
            sys.exit(check_sim(prop, tier, seed, jobs))
        import engines
        sys.exit(engines.check(prop, tier, seed, jobs))
    if cmd == "triage":
        # development aid: one minimised replay per violation class of a profile
        build()
        prof, total = sys.argv[2], int(sys.argv[3])
        viol, stats, _, _, _, _ = run_batches(prof, seed, total, False, jobs)
        classes = {}
        for v in viol:
            classes.setdefault((tuple(v["props"]), v["kind"], v["cause"]), []).append(v)
        for key, vs in sorted(classes.items(), key=lambda kv: -len(kv[1])):
            vs.sort(key=lambda v: len(v["ops"]))
            v = vs[0]
            mini = minimise(key[0][0], v, 60)
            print(len(vs), key, "->", (mini or {}).get("ops"), (mini or {}).get("faults"), (mini or {}).get("layouts"), "|", v.get("msg"))
        sys.exit(0)
    if cmd == "replay":
        build()
        code, _ = do_replay_file(sys.argv[2])
        sys.exit(code)
    if cmd == "selftest":
        build()
        import selftest
        sys.exit(selftest.main(sys.argv[2:], seed, jobs))
    eprint(__doc__)
    sys.exit(2)


if __name__ == "__main__":
    main()
