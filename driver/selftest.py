"""Self-tests of the machinery: determinism of the simulator and sensitivity of the
checks (mutants and seeded changes must trip the checks of the properties they
break; equivalent changes must not trip anything).

  ./check selftest determinism [runs]
  ./check selftest mutants [name ...]        (patches in /verif/mutants and /verif/seeded)
"""
import json
import os
import subprocess
import sys
import time

import driver as D


def determinism(args, seed, jobs):
    runs = int(args[0]) if args else 2000
    bad = 0
    for prof in D.SIM_PROFILES:
        n = runs if prof not in ("C10", "C16", "C09", "C11") else max(50, runs // 20)
        digs = []
        nviol = 0
        for j in (1, 4, jobs, jobs):
            # the last one repeats the same worker count in fresh processes
            viol, _, _, _, _, dig = D.run_batches(prof, seed, n, False, j, digests=True)
            nviol = len({v["run"] for v in viol})
            digs.append(dig)
        same = all(d == digs[0] for d in digs[1:])
        # a run that ends in a (known-finding) violation prints no digest
        complete = len(digs[0]) + nviol == n
        diff = 0
        if not same:
            for k in digs[0]:
                if any(d.get(k) != digs[0][k] for d in digs[1:]):
                    diff += 1
        print(f"determinism {prof}: {n} runs x 4 executions (1/4/{jobs}/{jobs} workers): {'identical' if same and complete else f'DIVERGED on {diff} runs (complete={complete})'}")
        if not (same and complete):
            bad += 1
    return 1 if bad else 0


MUT = os.environ.get("VERIF_MUT_DIR", "/tmp/verif-mut")


def sh(cmd, cwd=None, env=None):
    return subprocess.run(cmd, cwd=cwd, shell=True, stdout=subprocess.PIPE, stderr=subprocess.STDOUT, text=True, env=env)


def scratch_setup():
    """A scratch copy of /repo's working tree plus a shadow of the simulator crate
    that depends on the copy (sources symlinked, own target directory)."""
    sh(f"rm -rf {MUT}/repo {MUT}/sim {MUT}/out && mkdir -p {MUT}/repo {MUT}/sim/.cargo {MUT}/out")
    sh(f"rsync -a --exclude target --exclude .git /repo/ {MUT}/repo/")
    # a copy, not a link: the simulator's sources may be edited while a matrix runs
    sh(f"cp {D.SIM}/Cargo.lock {D.SIM}/rust-toolchain {MUT}/sim/ && rsync -a {D.SIM}/src/ {MUT}/sim/src/")
    with open(f"{D.SIM}/Cargo.toml") as f:
        toml = f.read().replace('path = "/repo"', f'path = "{MUT}/repo"')
    with open(f"{MUT}/sim/Cargo.toml", "w") as f:
        f.write(toml)
    with open(f"{MUT}/sim/.cargo/config.toml", "w") as f:
        f.write(f'[net]\noffline = true\n\n[build]\ntarget-dir = "{MUT}/target"\nrustflags = ["--cfg", "cactusref_verif"]\n')


def scratch_apply(patch):
    sh(f"rsync -a --delete /repo/src/ {MUT}/repo/src/")
    r = sh(f"git apply {patch}", cwd=f"{MUT}/repo")
    if r.returncode != 0:
        return r.stdout
    for prof in ("--release", "--profile relnd", f"--profile relnd --no-default-features --target-dir {MUT}/target/nostd", ""):
        r = sh(f"cargo build {prof} --offline", cwd=f"{MUT}/sim", env=dict(os.environ, CARGO_NET_OFFLINE="true"))
        if r.returncode != 0:
            return r.stdout[-1500:]
    return None


def run_check(prop, scale, extra_env=None):
    env = dict(os.environ, VERIF_SCALE=str(scale), VERIF_SELFTEST_BIN=f"{MUT}/target/release/cactus-sim", VERIF_SELFTEST_OUT=f"{MUT}/out", VERIF_SELFTEST_SIM=f"{MUT}/sim")
    env.update(extra_env or {})
    r = subprocess.run([sys.executable, os.path.join(D.VERIF, "driver", "driver.py"), "check", prop, "quick"], stdout=subprocess.PIPE, stderr=subprocess.STDOUT, text=True, env=env, cwd=D.VERIF)
    viol = [l for l in r.stdout.splitlines() if l.startswith("VIOLATION")]
    info = [l for l in r.stdout.splitlines() if l.startswith("violation kind=")]
    return r.returncode, viol, info, r.stdout


def collect_patches(names):
    out = []
    mdir = os.path.join(D.VERIF, "mutants")
    idx = json.load(open(os.path.join(mdir, "index.json"))) if os.path.exists(os.path.join(mdir, "index.json")) else {}
    for name, meta in sorted(idx.items()):
        out.append((name, os.path.join(mdir, name + ".diff"), meta["trips"], meta.get("equivalent", False)))
    sdir = os.path.join(D.VERIF, "seeded")
    if os.path.isdir(sdir):
        for name in sorted(os.listdir(sdir)):
            mp = os.path.join(sdir, name, "meta.json")
            if os.path.exists(mp):
                meta = json.load(open(mp))
                out.append(("seeded/" + name, os.path.join(sdir, name, "patch.diff"), meta.get("expected_checks", [meta["property"]]), False, meta.get("check_env")))
    if names:
        out = [o for o in out if o[0] in names or o[0].split("/")[-1] in names]
    shard = os.environ.get("VERIF_MUT_SHARD")
    if shard:
        i, n = (int(x) for x in shard.split("/"))
        out = [o for k, o in enumerate(out) if k % n == i]
    return out


def mutants(args, seed, jobs):
    """Every patch is applied to a scratch copy of /repo under /tmp (never to /repo),
    the simulator is rebuilt against the copy, and the quick checks are run on it.
    VERIF_MUT_ALL=1 runs every check on every patch (cross-detection matrix)."""
    scale = float(os.environ.get("VERIF_MUT_SCALE", "0.25"))
    results = []
    failures = 0
    all_props = D.SIM_PROFILES + ["C15"]
    scratch_setup()
    try:
        for name, patch, trips, equivalent, *rest in collect_patches(args):
            extra_env = rest[0] if rest else None
            err = scratch_apply(patch)
            if err:
                print(f"{name}: PATCH DOES NOT APPLY OR BUILD: {err.strip()[:300]}")
                failures += 1
                continue
            t0 = time.time()
            row = {"name": name, "expected": trips, "caught_by": [], "missed_by": [], "also_caught_by": []}
            props = sorted(all_props) if (equivalent or os.environ.get("VERIF_MUT_ALL")) else trips
            for p in props:
                code, viol, info, out = run_check(p, scale, extra_env)
                if code == 2:
                    row.setdefault("harness_errors", []).append(p)
                    print(out[-800:])
                elif code == 1 and not viol:
                    # exit 1 without a VIOLATION line is a crash of the driver, not a verdict
                    row.setdefault("harness_errors", []).append(p)
                    print(out[-800:])
                elif code == 1:
                    (row["caught_by"] if p in trips else row["also_caught_by"]).append(p)
                    row.setdefault("how", {})[p] = (info[0] if info else "")[:220]
                elif p in trips:
                    row["missed_by"].append(p)
            if equivalent:
                ok = not row["caught_by"] and not row["also_caught_by"] and not row.get("harness_errors")
            else:
                ok = not row["missed_by"] and not row.get("harness_errors")
            failures += 0 if ok else 1
            row["ok"] = ok
            row["wall_s"] = round(time.time() - t0, 1)
            results.append(row)
            print(f"{name}: {'OK' if ok else 'NOT OK'} expected={trips or 'silent'} caught_by={row['caught_by']} missed_by={row['missed_by']} also_caught_by={row['also_caught_by']} ({row['wall_s']}s)", flush=True)
            for p, h in row.get("how", {}).items():
                print(f"    {p}: {h}", flush=True)
    finally:
        out = os.environ.get("VERIF_MUT_REPORT", os.path.join(D.VERIF, "target", "mutants-last.json"))
        os.makedirs(os.path.dirname(out), exist_ok=True)
        with open(out, "w") as f:
            json.dump(results, f, indent=1)
        sh(f"rm -rf {MUT}")
    return 1 if failures else 0


def miri_sensitivity(args, seed, jobs):
    """The Miri cross-check must report undefined behaviour on a tree that has some:
    apply the named patch (default: a seeded C02 change) to the scratch copy and run the
    cross-check there."""
    name = args[0] if args else "C02-implicit-weak-released-before-values"
    patches = collect_patches([name])
    if not patches:
        print("unknown patch", name)
        return 2
    scratch_setup()
    try:
        err = scratch_apply(patches[0][1])
        if err:
            print("PATCH DOES NOT APPLY OR BUILD:", err[:300])
            return 2
        env = dict(os.environ, VERIF_SELFTEST_BIN=f"{MUT}/target/release/cactus-sim", VERIF_SELFTEST_OUT=f"{MUT}/out", VERIF_SELFTEST_SIM=f"{MUT}/sim")
        code = "import sys; sys.path.insert(0, %r); import driver as D; t, bad, note = D.miri_crosscheck('C02', %d, %d, %d); print('MIRI', t, len(bad), note); print(bad[0][1][:400] if bad else '')" % (os.path.join(D.VERIF, "driver"), seed, int(os.environ.get("VERIF_MIRI_HISTORIES", "320")), jobs)
        r = subprocess.run([sys.executable, "-c", code], stdout=subprocess.PIPE, stderr=subprocess.STDOUT, text=True, env=env)
        print(r.stdout[-1500:])
        ok = any(l.startswith("MIRI") and int(l.split()[2]) > 0 for l in r.stdout.splitlines())
        print("miri sensitivity:", "OK (undefined behaviour reported)" if ok else "NOT OK (nothing reported)")
        return 0 if ok else 1
    finally:
        sh(f"rm -rf {MUT}")


def main(args, seed, jobs):
    if not args:
        print(__doc__)
        return 2
    if args[0] == "determinism":
        return determinism(args[1:], seed, jobs)
    if args[0] == "mutants":
        return mutants(args[1:], seed, jobs)
    if args[0] == "miri":
        return miri_sensitivity(args[1:], seed, jobs)
    print(__doc__)
    return 2
