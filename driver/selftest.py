"""Self-tests of the machinery: determinism of the simulator and sensitivity of the
checks (mutants and seeded changes must trip the checks of the properties they
break; equivalent changes must not trip anything).

  ./check selftest determinism [runs]
  ./check selftest mutants [name ...]        (patches in /verif/mutants and /verif/seeded)
"""
import json
import os
import subprocess
import sys
import time

import driver as D


def determinism(args, seed, jobs):
    runs = int(args[0]) if args else 2000
    bad = 0
    for prof in D.SIM_PROFILES:
        n = runs if prof not in ("C10", "C16", "C09", "C11") else max(50, runs // 20)
        digs = []
        nviol = 0
        for j in (1, 4, jobs, jobs):
            # the last one repeats the same worker count in fresh processes
            viol, _, _, _, _, dig = D.run_batches(prof, seed, n, False, j, digests=True)
            nviol = len({v["run"] for v in viol})
            digs.append(dig)
        same = all(d == digs[0] for d in digs[1:])
        # a run that ends in a (known-finding) violation prints no digest
        complete = len(digs[0]) + nviol == n
        diff = 0
        if not same:
            for k in digs[0]:
                if any(d.get(k) != digs[0][k] for d in digs[1:]):
                    diff += 1
        print(f"determinism {prof}: {n} runs x 4 executions (1/4/{jobs}/{jobs} workers): {'identical' if same and complete else f'DIVERGED on {diff} runs (complete={complete})'}")
        if not (same and complete):
            bad += 1
    return 1 if bad else 0


def repo_clean():
    r = subprocess.run(["git", "-C", "/repo", "status", "--porcelain", "--untracked-files=no"], stdout=subprocess.PIPE, text=True)
    return r.stdout.strip() == ""


def run_check(prop, scale):
    env = dict(os.environ, VERIF_SCALE=str(scale))
    r = subprocess.run([os.path.join(D.VERIF, "check"), prop, "quick"], stdout=subprocess.PIPE, stderr=subprocess.STDOUT, text=True, env=env, cwd=D.VERIF)
    viol = [l for l in r.stdout.splitlines() if l.startswith("VIOLATION")]
    info = [l for l in r.stdout.splitlines() if l.startswith("violation kind=")]
    return r.returncode, viol, info, r.stdout


def collect_patches(names):
    out = []
    mdir = os.path.join(D.VERIF, "mutants")
    idx = json.load(open(os.path.join(mdir, "index.json"))) if os.path.exists(os.path.join(mdir, "index.json")) else {}
    for name, meta in sorted(idx.items()):
        out.append((name, os.path.join(mdir, name + ".diff"), meta["trips"], meta.get("equivalent", False)))
    sdir = os.path.join(D.VERIF, "seeded")
    if os.path.isdir(sdir):
        for name in sorted(os.listdir(sdir)):
            mp = os.path.join(sdir, name, "meta.json")
            if os.path.exists(mp):
                meta = json.load(open(mp))
                out.append(("seeded/" + name, os.path.join(sdir, name, "patch.diff"), meta.get("expected_checks", [meta["property"]]), False))
    if names:
        out = [o for o in out if o[0] in names or o[0].split("/")[-1] in names]
    return out


def mutants(args, seed, jobs):
    if not repo_clean():
        print("HARNESS-ERROR /repo has uncommitted changes to tracked files; refusing to apply patches")
        return 2
    scale = float(os.environ.get("VERIF_MUT_SCALE", "0.25"))
    results = []
    failures = 0
    all_props = D.SIM_PROFILES + ["C15"]
    try:
        for name, patch, trips, equivalent in collect_patches(args):
            subprocess.run(["git", "-C", "/repo", "checkout", "--", "."], check=True)
            r = subprocess.run(["git", "-C", "/repo", "apply", patch], stdout=subprocess.PIPE, stderr=subprocess.STDOUT, text=True)
            if r.returncode != 0:
                print(f"{name}: PATCH DOES NOT APPLY: {r.stdout.strip()[:200]}")
                failures += 1
                continue
            t0 = time.time()
            row = {"name": name, "expected": trips, "caught_by": [], "missed_by": [], "false_alarms": []}
            props = all_props if (equivalent or os.environ.get("VERIF_MUT_ALL")) else trips
            for p in props:
                code, viol, info, out = run_check(p, scale)
                if code == 2:
                    row.setdefault("harness_errors", []).append(p)
                    print(out[-800:])
                elif code == 1:
                    (row["caught_by"] if p in trips else row["false_alarms"]).append(p)
                    row.setdefault("how", {})[p] = (info[0] if info else "")[:200]
                elif p in trips:
                    row["missed_by"].append(p)
            ok = (not row["missed_by"] or (row["caught_by"] and os.environ.get("VERIF_MUT_ANY"))) and not row["false_alarms"] and not row.get("harness_errors")
            if equivalent:
                ok = not row["caught_by"] and not row["false_alarms"] and not row.get("harness_errors")
            failures += 0 if ok else 1
            row["ok"] = ok
            row["wall_s"] = round(time.time() - t0, 1)
            results.append(row)
            print(f"{name}: {'OK' if ok else 'NOT OK'} expected={trips or 'silent'} caught_by={row['caught_by']} missed_by={row['missed_by']} false_alarms={row['false_alarms']} ({row['wall_s']}s)")
            for p, h in row.get("how", {}).items():
                print(f"    {p}: {h}")
    finally:
        subprocess.run(["git", "-C", "/repo", "checkout", "--", "."], check=True)
    os.makedirs(os.path.join(D.VERIF, "target"), exist_ok=True)
    with open(os.path.join(D.VERIF, "target", "mutants-last.json"), "w") as f:
        json.dump(results, f, indent=1)
    return 1 if failures else 0


def main(args, seed, jobs):
    if not args:
        print(__doc__)
        return 2
    if args[0] == "determinism":
        return determinism(args[1:], seed, jobs)
    if args[0] == "mutants":
        return mutants(args[1:], seed, jobs)
    print(__doc__)
    return 2
