#!/usr/bin/env python3
"""Confirm a sub-agent's seeded change and run the checks against it.

  tools/seeded.py confirm <worktree> <n> <id>     # e.g. /tmp/wt-C07 1 C07-weak-count-after-unwrap
      copies deliver/patch<n>.diff, demo<n>.rs, meta<n>.json to /verif/seeded/<id>/ and, in the
      worktree: (a) patch applied: existing tests pass, demo fails; (b) patch reverted: demo passes.
  tools/seeded.py check <id> [prop ...]           # apply to /repo, run ./check <prop> quick, revert
"""
import json, os, shutil, subprocess, sys, time
VERIF = os.path.dirname(os.path.dirname(os.path.abspath(__file__)))

def sh(cmd, cwd=None, env=None, timeout=3600):
    r = subprocess.run(cmd, cwd=cwd, shell=True, stdout=subprocess.PIPE, stderr=subprocess.STDOUT, text=True, env=env, timeout=timeout)
    return r.returncode, r.stdout

def test_summary(out):
    ok = out.count("test result: ok")
    failed = [l for l in out.splitlines() if "test result: FAILED" in l or l.startswith("error: test failed") or "(signal:" in l]
    return ok, failed

def confirm(wt, n, sid):
    d = os.path.join(VERIF, "seeded", sid); os.makedirs(d, exist_ok=True)
    shutil.copy(os.path.join(wt, "deliver", f"patch{n}.diff"), os.path.join(d, "patch.diff"))
    shutil.copy(os.path.join(wt, "deliver", f"demo{n}.rs"), os.path.join(d, "demo.rs"))
    meta = json.load(open(os.path.join(wt, "deliver", f"meta{n}.json")))
    sh("git checkout -- . && rm -f tests/demo_*.rs tests/demo.rs tests/seeded_demo.rs", cwd=wt)
    ran = []
    # (a) with the patch
    c, o = sh(f"git apply {d}/patch.diff", cwd=wt); assert c == 0, o
    c, o = sh("cargo test --workspace --no-fail-fast --offline 2>&1", cwd=wt)
    ok, failed = test_summary(o); ran.append("with patch: cargo test --workspace --no-fail-fast --offline")
    suite_ok = c == 0 and not failed
    shutil.copy(os.path.join(d, "demo.rs"), os.path.join(wt, "tests", "seeded_demo.rs"))
    extra = meta.get("demo_command")
    flags = " --no-default-features" if "--no-default-features" in str(meta.get("demo_command", "")) else ""
    if "--release" in str(meta.get("demo_command", "")):
        flags += " --release"
    c1, o1 = sh(f"cargo test --offline{flags} --test seeded_demo 2>&1", cwd=wt, timeout=3600); ran.append(f"with patch: cargo test --offline{flags} --test seeded_demo")
    demo_fails_with = c1 != 0
    # (b) without
    sh("git checkout -- src", cwd=wt)
    c2, o2 = sh(f"cargo test --offline{flags} --test seeded_demo 2>&1", cwd=wt, timeout=3600); ran.append(f"without patch: cargo test --offline{flags} --test seeded_demo")
    demo_passes_without = c2 == 0
    sh("rm -f tests/seeded_demo.rs; git checkout -- .", cwd=wt)
    meta["confirmed"] = {"existing_suite_passes_with_patch": suite_ok, "suite_ok_result_lines": ok, "demo_fails_with_patch": demo_fails_with, "demo_passes_without_patch": demo_passes_without,
                         "commands": ran, "at": time.strftime("%Y-%m-%dT%H:%M:%SZ", time.gmtime()),
                         "demo_failure_excerpt": "\n".join([l for l in o1.splitlines() if "panicked" in l or "assert" in l or "signal" in l or "left:" in l or "right:" in l][:8])}
    meta["property"] = meta.get("property", sid[:3])
    json.dump(meta, open(os.path.join(d, "meta.json"), "w"), indent=1)
    print(sid, json.dumps(meta["confirmed"], indent=1))
    return suite_ok and demo_fails_with and demo_passes_without

def check(sid, props):
    d = os.path.join(VERIF, "seeded", sid)
    meta = json.load(open(os.path.join(d, "meta.json")))
    props = props or meta.get("expected_checks") or [meta["property"]]
    c, o = sh("git -C /repo status --porcelain --untracked-files=no")
    assert o.strip() == "", "/repo dirty"
    res = {}
    try:
        c, o = sh(f"git -C /repo apply {d}/patch.diff"); assert c == 0, o
        for p in props:
            env = dict(os.environ, VERIF_SCALE=os.environ.get("VERIF_SCALE", "1"))
            t0 = time.time()
            c, o = sh(f"./check {p} quick", cwd=VERIF, env=env)
            lines = [l for l in o.splitlines() if l.startswith("violation kind=") or l.startswith("VIOLATION") or "minimised to" in l]
            res[p] = {"exit": c, "wall_s": round(time.time() - t0, 1), "lines": lines[:4]}
            print(sid, p, "exit", c, *lines[:3], sep="\n   ")
            rp = [l.split("replay=")[1] for l in lines if l.startswith("VIOLATION")]
            if rp and os.path.exists(rp[0]):
                shutil.copy(rp[0], os.path.join(d, f"found-by-{p}.json"))
    finally:
        sh("git -C /repo checkout -- .")
    meta.setdefault("checks_run", {}).update(res)
    json.dump(meta, open(os.path.join(d, "meta.json"), "w"), indent=1)
    return res

if __name__ == "__main__":
    if sys.argv[1] == "confirm":
        ok = confirm(sys.argv[2], sys.argv[3], sys.argv[4]); sys.exit(0 if ok else 1)
    if sys.argv[1] == "check":
        check(sys.argv[2], sys.argv[3:])
