//! Seeded swarm generator. Structured shapes are emitted as explicit call lists;
//! the random walk chooses each next call by looking at the model (never at real
//! addresses), so one seed is one history.

use crate::exec::m;
use crate::ops::{Id, Op};

#[derive(Clone)]
pub struct Rng(pub u64);
impl Rng {
    pub fn next(&mut self) -> u64 {
        self.0 = self.0.wrapping_add(0x9E3779B97F4A7C15);
        let mut z = self.0;
        z = (z ^ (z >> 30)).wrapping_mul(0xBF58476D1CE4E5B9);
        z = (z ^ (z >> 27)).wrapping_mul(0x94D049BB133111EB);
        z ^ (z >> 31)
    }
    pub fn below(&mut self, n: usize) -> usize {
        if n == 0 {
            0
        } else {
            (self.next() % n as u64) as usize
        }
    }
    pub fn chance(&mut self, num: u32, den: u32) -> bool {
        (self.next() % den as u64) < num as u64
    }
    pub fn pick<T: Copy>(&mut self, v: &[T]) -> Option<T> {
        if v.is_empty() {
            None
        } else {
            Some(v[self.below(v.len())])
        }
    }
}

pub fn mix(seed: u64, run: u64, stream: u64) -> u64 {
    let mut r = Rng(seed ^ run.wrapping_mul(0xD1B54A32D192ED03) ^ stream.wrapping_mul(0x8CB92BA72F3D8DD7));
    r.next();
    r.next()
}

#[derive(Clone, Copy, Debug, PartialEq, Eq)]
#[repr(usize)]
pub enum K {
    New,
    Clone,
    Drop,
    Store,
    Take,
    Adopt,
    Unadopt,
    SelfSame,
    UnSelfSame,
    Downgrade,
    Upgrade,
    WeakClone,
    WeakDrop,
    WeakRaw,
    CloneFrom,
    StoreWeak,
    TryUnwrap,
    MakeMut,
    SlotMakeMut,
    GetMut,
    IntoRaw,
    FromRaw,
    IncStrong,
    DecStrong,
    DropValue,
    Noise,
    _N,
}
pub const NK: usize = K::_N as usize;
const ALLK: [K; NK] = [
    K::New, K::Clone, K::Drop, K::Store, K::Take, K::Adopt, K::Unadopt, K::SelfSame, K::UnSelfSame, K::Downgrade, K::Upgrade, K::WeakClone,
    K::WeakDrop, K::WeakRaw, K::CloneFrom, K::StoreWeak, K::TryUnwrap, K::MakeMut, K::SlotMakeMut, K::GetMut, K::IntoRaw, K::FromRaw, K::IncStrong, K::DecStrong, K::DropValue, K::Noise,
];

#[derive(Clone, Debug)]
pub struct Knobs {
    pub max_objs: usize,
    pub walk_len: usize,
    pub weights: [u32; NK],
    /// out of 8: a Store records the adoption
    pub adopt_p: u32,
    /// out of 8: a Take elides the unadopt
    pub elide_p: u32,
    /// out of 8: an Unadopt may target a pair without record
    pub unmatched_p: u32,
    pub max_mult: usize,
    pub shape: u32,
    pub shape_objs: usize,
    pub drain: bool,
    pub keep: usize,
    pub weak_p: u32,
    pub selfsame_p: u32,
    pub extra_clone_p: u32,
    /// prefer consuming calls on objects that take part in adoptions
    pub consuming_on_adopted: bool,
    pub drain_consuming: bool,
    /// share (of 8) of the objects that are built in two phases (`new_uninit`, adoptions
    /// on the `MaybeUninit`-typed handles, `assume_init` later)
    pub uninit_p: u32,
    /// out of 8: a destructor downgrades each of its stored handles and the program keeps the Weak
    pub dtor_downgrade_p: u32,
}

#[derive(Default, Clone)]
pub struct GenState {
    pub next_h: Id,
    pub next_w: Id,
    pub next_o: Id,
    pub next_r: Id,
    pub next_v: Id,
}

impl GenState {
    pub fn h(&mut self) -> Id {
        self.next_h += 1;
        self.next_h - 1
    }
    pub fn w(&mut self) -> Id {
        self.next_w += 1;
        self.next_w - 1
    }
    pub fn o(&mut self) -> Id {
        self.next_o += 1;
        self.next_o - 1
    }
    pub fn r(&mut self) -> Id {
        self.next_r += 1;
        self.next_r - 1
    }
    pub fn v(&mut self) -> Id {
        self.next_v += 1;
        self.next_v - 1
    }
}

pub const SHAPE_NAMES: &[&str] = &["walk", "ring", "ring+chords", "clique", "cycle+tail", "two-cycles-shared", "self-loops", "multigraph", "unequal-degree", "chain", "hub"];

/// Emit a structured shape as explicit calls. Returns the calls; the handles
/// `0..k` are the original outside handles of objects `0..k`.
pub fn structured(rng: &mut Rng, kn: &Knobs, g: &mut GenState) -> Vec<Op> {
    let k = kn.shape_objs.max(1);
    let mut ops = vec![];
    let mut first_h = vec![];
    for _ in 0..k {
        let (o, h) = (g.o(), g.h());
        first_h.push(h);
        ops.push(Op::New { o, h });
    }
    // edges (owner index, target index, multiplicity)
    let mut edges: Vec<(usize, usize, usize)> = vec![];
    let mult = |rng: &mut Rng| 1 + if kn.max_mult > 1 && rng.chance(1, 4) { rng.below(kn.max_mult) } else { 0 };
    match kn.shape {
        1 => {
            for i in 0..k {
                edges.push((i, (i + 1) % k, mult(rng)));
            }
        }
        2 => {
            for i in 0..k {
                edges.push((i, (i + 1) % k, 1));
            }
            for _ in 0..1 + rng.below(k) {
                edges.push((rng.below(k), rng.below(k), mult(rng)));
            }
        }
        3 => {
            for i in 0..k {
                for j in 0..k {
                    if i != j {
                        edges.push((i, j, 1));
                    }
                }
            }
        }
        4 => {
            // cycle on the first c objects, acyclic tail on the rest
            let c = 1 + rng.below(k);
            for i in 0..c {
                edges.push((i, (i + 1) % c, mult(rng)));
            }
            for t in c..k {
                let from = rng.below(t);
                if rng.chance(1, 2) {
                    edges.push((from, t, mult(rng)));
                } else {
                    edges.push((t, from, mult(rng)));
                }
            }
        }
        5 => {
            // two cycles sharing object 0
            let a = 1 + rng.below(k);
            for i in 0..a {
                edges.push((i, (i + 1) % a, 1));
            }
            if a < k {
                edges.push((0, a, 1));
                for i in a..k {
                    edges.push((i, if i + 1 < k { i + 1 } else { 0 }, 1));
                }
            }
        }
        6 => {
            for i in 0..k {
                edges.push((i, i, mult(rng)));
                if i > 0 && rng.chance(1, 2) {
                    edges.push((0, i, 1));
                }
            }
        }
        8 => {
            // members with unequal in- and out-degree
            for i in 0..k {
                edges.push((i, (i + 1) % k, 1 + rng.below(kn.max_mult.max(2))));
            }
            if k >= 2 {
                edges.push((0, 1, 1));
            }
            if k >= 3 && rng.chance(1, 2) {
                edges.push((0, k - 1, 1));
            }
        }
        9 => {
            for i in 0..k.saturating_sub(1) {
                edges.push((i, i + 1, mult(rng)));
            }
        }
        10 => {
            // hub: object 0 adopts and is adopted by many peers, so that its table
            // (and the trace's map) grows past the initial capacities
            for i in 1..k {
                match rng.below(if k >= 8 { 8 } else { 4 }) {
                    0 => edges.push((0, i, mult(rng))),
                    1 => edges.push((i, 0, mult(rng))),
                    _ => {
                        edges.push((0, i, mult(rng)));
                        edges.push((i, 0, mult(rng)));
                    }
                }
                if rng.chance(1, 4) {
                    edges.push((i, 1 + rng.below(k - 1), 1));
                }
            }
            if rng.chance(1, 3) {
                edges.push((0, 0, mult(rng)));
            }
        }
        _ => {
            let density = 1 + rng.below(4);
            for i in 0..k {
                for j in 0..k {
                    if rng.below(5) < density {
                        edges.push((i, j, mult(rng)));
                    }
                }
            }
        }
    }
    // shuffle edge insertion order
    for i in (1..edges.len()).rev() {
        edges.swap(i, rng.below(i + 1));
    }
    for (i, j, mul) in edges {
        for _ in 0..mul {
            let d = g.h();
            ops.push(Op::Clone { h: first_h[j], d });
            let adopt = rng.chance(kn.adopt_p, 8);
            ops.push(Op::Store { h: d, owner: first_h[i], adopt });
        }
    }
    if kn.selfsame_p > 0 {
        for i in 0..k {
            if rng.chance(kn.selfsame_p, 8) {
                ops.push(Op::SelfSame { h: first_h[i] });
            }
        }
    }
    if kn.weak_p > 0 {
        for i in 0..k {
            if rng.chance(kn.weak_p, 8) {
                let w = g.w();
                ops.push(Op::Downgrade { h: first_h[i], w });
                if rng.chance(1, 3) {
                    ops.push(Op::StoreWeak { w, owner: first_h[rng.below(k)] });
                }
            }
        }
    }
    for i in 0..k {
        if rng.chance(kn.extra_clone_p, 8) {
            let d = g.h();
            ops.push(Op::Clone { h: first_h[i], d });
        }
    }
    ops
}

struct View {
    hs: Vec<(Id, Id)>,
    ws: Vec<Id>,
    raws: Vec<Id>,
    vals: Vec<Id>,
    alive_objs: usize,
}

fn view() -> View {
    m(|m| View {
        hs: m.ph.iter().map(|(&h, &o)| (h, o)).collect(),
        ws: m.pw.keys().copied().collect(),
        raws: m.raws.keys().copied().collect(),
        vals: m.loose.keys().copied().collect(),
        alive_objs: m.objs.values().filter(|o| o.alive).count(),
    })
}

/// Choose the next call of the random walk from the current model state.
pub fn next_op(rng: &mut Rng, kn: &Knobs, g: &mut GenState) -> Option<Op> {
    let v = view();
    let total: u32 = kn.weights.iter().sum();
    if total == 0 {
        return None;
    }
    for _attempt in 0..12 {
        let mut r = (rng.next() % total as u64) as u32;
        let mut kind = K::New;
        for (i, &wt) in kn.weights.iter().enumerate() {
            if r < wt {
                kind = ALLK[i];
                break;
            }
            r -= wt;
        }
        let hs = &v.hs;
        let op = match kind {
            K::New => {
                if v.alive_objs >= kn.max_objs {
                    None
                } else {
                    Some(Op::New { o: g.o(), h: g.h() })
                }
            }
            K::Clone => rng.pick(hs).map(|(h, _)| Op::Clone { h, d: g.h() }),
            K::Drop => rng.pick(hs).map(|(h, _)| Op::Drop { h }),
            K::Store => {
                if hs.len() < 2 {
                    None
                } else {
                    let (h, _) = rng.pick(hs).unwrap();
                    let (owner, _) = rng.pick(hs).unwrap();
                    if h == owner {
                        None
                    } else {
                        Some(Op::Store { h, owner, adopt: rng.chance(kn.adopt_p, 8) })
                    }
                }
            }
            K::Take => {
                let cands: Vec<(Id, Id)> = m(|m| {
                    let mut c = vec![];
                    for &(h, o) in hs.iter() {
                        for &(sid, _) in &m.obj(o).slots {
                            c.push((h, sid));
                        }
                    }
                    c
                });
                rng.pick(&cands).map(|(owner, slot)| Op::Take { owner, slot, unadopt: !rng.chance(kn.elide_p, 8) })
            }
            K::Adopt => {
                // record an existing, so far unrecorded, stored handle
                let cands: Vec<(Id, Id)> = m(|m| {
                    let mut c = vec![];
                    for &(h, o) in hs.iter() {
                        for &(h2, t) in hs.iter() {
                            if h != h2 && m.held(o, t) > *m.adopt.get(&(o, t)).unwrap_or(&0) {
                                c.push((h, h2));
                            }
                        }
                    }
                    c
                });
                rng.pick(&cands).map(|(owner, target)| Op::Adopt { owner, target })
            }
            K::Unadopt => {
                let unmatched = rng.chance(kn.unmatched_p, 8);
                let cands: Vec<(Id, Id)> = m(|m| {
                    let mut c = vec![];
                    for &(h, o) in hs.iter() {
                        for &(h2, t) in hs.iter() {
                            if h != h2 && (unmatched || *m.adopt.get(&(o, t)).unwrap_or(&0) > 0) {
                                c.push((h, h2));
                            }
                        }
                    }
                    c
                });
                rng.pick(&cands).map(|(owner, target)| Op::Unadopt { owner, target })
            }
            K::SelfSame => rng.pick(hs).map(|(h, _)| Op::SelfSame { h }),
            K::UnSelfSame => rng.pick(hs).map(|(h, _)| Op::UnSelfSame { h }),
            K::Downgrade => rng.pick(hs).map(|(h, _)| Op::Downgrade { h, w: g.w() }),
            K::Upgrade => rng.pick(&v.ws).map(|w| Op::Upgrade { w, d: g.h() }),
            K::WeakClone => rng.pick(&v.ws).map(|w| Op::WeakClone { w, d: g.w() }),
            K::WeakDrop => rng.pick(&v.ws).map(|w| Op::WeakDrop { w }),
            K::WeakRaw => rng.pick(&v.ws).map(|w| Op::WeakRaw { w }),
            K::CloneFrom => match (rng.pick(hs), rng.pick(hs)) {
                (Some((dst, _)), Some((src, _))) if dst != src => Some(Op::CloneFrom { dst, src }),
                _ => None,
            },
            K::StoreWeak => match (rng.pick(&v.ws), rng.pick(hs)) {
                (Some(w), Some((owner, _))) => Some(Op::StoreWeak { w, owner }),
                _ => None,
            },
            K::SlotMakeMut => {
                let cands: Vec<(Id, Id)> = m(|m| {
                    let mut c = vec![];
                    for &(h, o) in hs.iter() {
                        for &(sid, _) in &m.obj(o).slots {
                            c.push((h, sid));
                        }
                    }
                    c
                });
                rng.pick(&cands).map(|(owner, slot)| Op::SlotMakeMut { owner, slot, o2: g.o() })
            }
            K::TryUnwrap | K::MakeMut | K::GetMut | K::IntoRaw => {
                let cands: Vec<Id> = if kn.consuming_on_adopted && rng.chance(3, 4) {
                    m(|m| hs.iter().filter(|&&(_, o)| !m.row_empty(o)).map(|&(h, _)| h).collect())
                } else {
                    hs.iter().map(|&(h, _)| h).collect()
                };
                rng.pick(&cands).map(|h| match kind {
                    K::TryUnwrap => Op::TryUnwrap { h, v: g.v() },
                    K::MakeMut => Op::MakeMut { h, o2: g.o() },
                    K::GetMut => Op::GetMut { h },
                    _ => Op::IntoRaw { h, r: g.r() },
                })
            }
            K::FromRaw => rng.pick(&v.raws).map(|r| Op::FromRaw { r, h: g.h() }),
            K::IncStrong => rng.pick(&v.raws).map(|r| Op::IncStrong { r }),
            K::DecStrong => rng.pick(&v.raws).map(|r| Op::DecStrong { r }),
            K::DropValue => rng.pick(&v.vals).map(|v| Op::DropValue { v }),
            K::Noise => Some(Op::Noise { n: 1 + rng.below(40) as Id }),
            K::_N => None,
        };
        if op.is_some() {
            return op;
        }
    }
    None
}

/// Next call of the drain phase: release everything the program holds, in random
/// order, leaving `keep` strong handles for last... and then those too.
pub fn next_drain(rng: &mut Rng, kn: &Knobs, g: &mut GenState) -> Option<Op> {
    let v = view();
    let mut cands: Vec<Op> = vec![];
    for &(h, o) in &v.hs {
        // a handle is also given up by the calls that consume or replace it: in some runs
        // the drain releases through them, so that "the last outside handle of a group"
        // is released by make_mut / try_unwrap / into_raw+decrement as well as by drop
        if kn.drain_consuming && rng.chance(1, 3) {
            let n = m(|m| m.phys(o));
            match rng.below(4) {
                3 if v.hs.len() > 1 => {
                    // overwrite it with a clone of another handle (then that one is released later)
                    let (src, _) = v.hs[rng.below(v.hs.len())];
                    if src != h {
                        cands.push(Op::CloneFrom { dst: h, src });
                    } else {
                        cands.push(Op::Drop { h });
                    }
                }
                0 if n != 1 => cands.push(Op::MakeMut { h, o2: g.o() }),
                1 if n == 1 => cands.push(Op::TryUnwrap { h, v: g.v() }),
                2 => cands.push(Op::IntoRaw { h, r: g.r() }),
                _ => cands.push(Op::Drop { h }),
            }
        } else {
            cands.push(Op::Drop { h });
        }
    }
    for &r in &v.raws {
        cands.push(Op::DecStrong { r });
    }
    for &val in &v.vals {
        cands.push(Op::DropValue { v: val });
    }
    if cands.is_empty() || rng.chance(1, 6) {
        for &w in &v.ws {
            cands.push(Op::WeakDrop { w });
        }
    }
    if cands.is_empty() {
        return None;
    }
    let i = rng.below(cands.len());
    let op = cands.swap_remove(i);
    if let Op::WeakDrop { w } = op {
        // a Weak to an object that may have died by now, round-tripped through the raw API
        if kn.weights[K::WeakRaw as usize] > 0 && rng.chance(1, 4) {
            return Some(Op::WeakRaw { w });
        }
    }
    Some(op)
}

pub fn set_w(kn: &mut Knobs, k: K, w: u32) {
    kn.weights[k as usize] = w;
}

/// Two-phase construction: rewrite a generated call for histories with `uninit_p > 0`.
/// `New` becomes `NewU` for a share of the objects; a recorded store whose owner and
/// target are both still uninit-typed becomes an unrecorded store followed by an adoption
/// through the `MaybeUninit`-typed handles (so that records exist before `assume_init`).
pub fn two_phase(op: Op, kn: &Knobs, rng: &mut Rng) -> Vec<Op> {
    if kn.uninit_p == 0 {
        return vec![op];
    }
    match op {
        Op::New { o, h } if rng.chance(kn.uninit_p, 8) => vec![Op::NewU { o, h }],
        Op::Store { h, owner, adopt: true } => {
            let t = m(|m| {
                let obj = *m.ph.get(&h)?;
                m.ph.iter().find(|&(&k, &v)| v == obj && k != h && k != owner).map(|(&k, _)| k)
            });
            let both = t.map_or(false, |t| crate::exec::w(|w| w.uninit.contains(&owner) && w.uninit.contains(&t)));
            if both && rng.chance(3, 4) {
                vec![Op::Store { h, owner, adopt: false }, Op::Adopt { owner, target: t.unwrap() }]
            } else {
                vec![op]
            }
        }
        _ if rng.chance(1, 24) => {
            let hs: Vec<Id> = crate::exec::w(|w| w.uninit.iter().copied().collect());
            match rng.pick(&hs) {
                Some(h) => vec![Op::AssumeInit { h }, op],
                None => vec![op],
            }
        }
        _ => vec![op],
    }
}
