//! Executes calls against the real cactusref and the model in lock step,
//! re-entrantly (destructor scripts call back into `exec`). Also the instrumented
//! payload type and the per-call oracles.

use crate::alloc::{self, har, sut, BlockState};
use crate::model::{Model, Obj, OldAlloc, Verdict, WeakObs, CANARY, CANARY_DEAD};
use crate::ops::{Faults, Id, Op};
use crate::report::{self, soft, violation};
use crate::shared::{fnv, st, st_max, St};
use cactusref::{verif, Adopt, Rc, Weak};
use std::cell::{Cell, RefCell};
use std::collections::{BTreeMap, BTreeSet};
use std::panic::{catch_unwind, resume_unwind, AssertUnwindSafe};
use std::sync::atomic::Ordering::Relaxed;

pub struct Slot {
    pub id: Id,
    pub target: Id,
    pub h: Rc<Node>,
}

pub struct WSlot {
    pub id: Id,
    pub target: Id,
    pub epoch: u32,
    pub w: Weak<Node>,
}

pub struct Node {
    pub id: Cell<Id>,
    pub canary: Cell<u64>,
    pub slots: RefCell<Vec<Slot>>,
    pub weaks: RefCell<Vec<WSlot>>,
}

impl Node {
    fn new(id: Id) -> Node {
        Node { id: Cell::new(id), canary: Cell::new(CANARY ^ id as u64), slots: RefCell::new(Vec::new()), weaks: RefCell::new(Vec::new()) }
    }
}

/// Which handle `make_mut` is being applied to.
#[derive(Clone, Copy, Debug)]
pub enum CloneDst {
    Prog(Id),
    /// (object whose value stores the handle, slot id)
    Slot(Id, Id),
}

/// Payload of the injected panic; `carried` are strong handles the panicking destructor
/// moved out of its value (they leave the teardown with the unwind).
pub struct Injected(pub u32, pub Carried);
#[derive(Default)]
pub struct Carried(pub Vec<(Id, Rc<Node>)>);
// single-threaded harness: the payload never leaves the thread
unsafe impl Send for Carried {}

#[derive(Default)]
pub struct World {
    pub hs: BTreeMap<Id, Rc<Node>>,
    /// program handles whose static type is still `Rc<MaybeUninit<Node>>` (two-phase
    /// construction); they are kept in `hs` under the type they will have
    pub uninit: std::collections::BTreeSet<Id>,
    pub ws: BTreeMap<Id, Weak<Node>>,
    pub raws: BTreeMap<Id, *const Node>,
    pub vals: BTreeMap<Id, Node>,
    /// value address recorded when the allocation was created: (obj, epoch) -> as_ptr
    pub as_ptr: BTreeMap<(Id, u32), usize>,
}

/// What the run loop wants to know about a destructor position (C10/C16 enumeration).
#[derive(Clone, Debug, Default)]
pub struct DtorSnap {
    pub obj: Id,
    pub handles: Vec<(Id, Id)>,
    pub weaks: Vec<(Id, Id)>,
    pub own_slots: Vec<(Id, Id)>,
    /// (owner handle, slot id, target) for slots of objects the program holds directly
    pub takeable: Vec<(Id, Id, Id)>,
    pub depth: u32,
}

pub struct ExecState {
    pub depth: u32,
    pub dtor_counter: u32,
    pub faults: Faults,
    pub fired_panics: u32,
    pub fired_scripts: u32,
    pub panic_in_call: bool,
    pub any_panic: bool,
    /// objects condemned or already destroyed in the current call when its (first) panic fired:
    /// the members of the interrupted teardown(s); only their memory may leak
    pub panic_scope: Option<Vec<Id>>,
    pub pending_clone: Option<(CloneDst, Id)>,
    pub clone_done: Option<Id>,
    pub c14: Option<(usize, usize, Id)>,
    pub record_dtors: bool,
    pub dtors: Vec<DtorSnap>,
    pub call_digests: Vec<u64>,
    pub order_digest: u64,
    pub call_start_log: usize,
    pub c16_markers: bool,
    pub collected_group_with_outside_survivor: bool,
    pub nested_destroy_in_script: u32,
    pub nontrivial: u32,
    pub shape_hash: u64,
    pub dtor_downgrade_p: u32,
    pub dtor_rng: crate::gen::Rng,
    pub dtor_auto: Id,
    pub inline_record: Vec<(u32, Vec<Op>)>,
    pub call_start_alive: usize,
    pub call_start_traces: usize,
    pub call_start_visits: usize,
    pub clone_counter: u32,
    /// some stored handle was unrecorded (or over-recorded) after some call
    pub not_fully_recorded: bool,
    /// the payload's Clone impl yields a copy WITHOUT the stored handles (a value type
    /// whose clone starts empty) instead of cloning every stored handle
    pub shallow_clone: bool,
    pub clone_releases: bool,
    /// program handles borrowed by the call in progress (user code run by that call cannot use them)
    pub pinned: Vec<Id>,
}

impl Default for ExecState {
    fn default() -> Self {
        ExecState {
            depth: 0, dtor_counter: 0, faults: Faults::default(), fired_panics: 0, fired_scripts: 0, panic_in_call: false, any_panic: false, panic_scope: None,
            pending_clone: None, clone_done: None, c14: None, record_dtors: false, dtors: vec![], call_digests: vec![], order_digest: 0,
            call_start_log: 0, c16_markers: false, collected_group_with_outside_survivor: false, nested_destroy_in_script: 0, nontrivial: 0,
            shape_hash: 0, dtor_downgrade_p: 0, dtor_rng: crate::gen::Rng(0), dtor_auto: 0, inline_record: vec![], call_start_alive: 0, call_start_traces: 0, call_start_visits: 0, clone_counter: 0, not_fully_recorded: false, shallow_clone: false, clone_releases: false, pinned: vec![],
        }
    }
}

thread_local! {
    static M: RefCell<Model> = RefCell::new(Model::new(false));
    static W: RefCell<World> = RefCell::new(World::default());
    static X: RefCell<ExecState> = RefCell::new(ExecState::default());
}

#[inline]
pub fn m<R>(f: impl FnOnce(&mut Model) -> R) -> R {
    har(|| M.with(|m| f(&mut m.borrow_mut())))
}
#[inline]
pub fn w<R>(f: impl FnOnce(&mut World) -> R) -> R {
    har(|| W.with(|w| f(&mut w.borrow_mut())))
}
#[inline]
pub fn x<R>(f: impl FnOnce(&mut ExecState) -> R) -> R {
    har(|| X.with(|x| f(&mut x.borrow_mut())))
}

#[inline]
fn weak_call<R>(f: impl FnOnce() -> R) -> R {
    struct G(bool);
    impl Drop for G {
        fn drop(&mut self) {
            alloc::IN_WEAK.store(self.0, Relaxed);
        }
    }
    let _g = G(alloc::IN_WEAK.swap(true, Relaxed));
    sut(f)
}

fn bad(v: Verdict) {
    if let Verdict::Bad { kind, cause, msg } = v {
        violation(kind, &cause, &msg);
    }
}

fn on_stale_access() {
    violation("stale-access", "links-of-moved-out-allocation", "the link table accessor was used on an allocation whose contents were already moved out");
}

/// Reset everything for a new execution. Leftovers of the previous execution are
/// forgotten, never dropped (their heap is gone with the arena reset).
pub fn reset(faults: Faults, want_snaps: bool, record_dtors: bool, c16_markers: bool, dtor_downgrade_p: u32, dtor_seed: u64, clone_mode: u32) {
    har(|| {
        let old = W.with(|w| std::mem::take(&mut *w.borrow_mut()));
        std::mem::forget(old);
        M.with(|m| {
            let old = std::mem::replace(&mut *m.borrow_mut(), Model::new(want_snaps));
            drop(old);
        });
        X.with(|x| {
            *x.borrow_mut() = ExecState { faults, record_dtors, c16_markers, order_digest: 0xcbf29ce484222325, dtor_downgrade_p, dtor_rng: crate::gen::Rng(dtor_seed), shallow_clone: clone_mode & 1 != 0, clone_releases: clone_mode & 2 != 0, ..ExecState::default() };
        });
    });
    verif::reset();
    verif::set_stale_access_hook(Some(on_stale_access));
    report::reset_flags();
}

// ------------------------------------------------------------------ C14 window

fn c14_open(o: Id) {
    let eligible = m(|m| {
        let Some(ob) = m.objs.get(&o) else { return false };
        if !ob.alive || !ob.rc || ob.selfsame > 0 {
            return false;
        }
        m.row_empty(o)
    });
    let depth = x(|x| x.depth);
    let never = m(|m| m.objs.get(&o).map_or(false, |ob| !ob.ever_recorded));
    if eligible && (depth == 0 || never) {
        let tc = verif::TRACE_CALLS.load(Relaxed);
        x(|x| x.c14 = Some((alloc::alloc_count(), tc, o)));
    }
}

fn c14_close() {
    if let Some((a0, t0, o)) = x(|x| x.c14.take()) {
        st(St::p_c14_checked_calls, 1);
        let a1 = alloc::alloc_count();
        let t1 = verif::TRACE_CALLS.load(Relaxed);
        if t1 != t0 {
            soft("traced-unlinked", "trace-on-object-without-records", &format!("clone/drop of a handle to object {o}, which has no recorded adoption, ran {} reachability trace(s)", t1 - t0));
        }
        if a1 != a0 {
            soft("alloc-unlinked", "allocation-on-object-without-records", &format!("clone/drop of a handle to object {o}, which has no recorded adoption, performed {} heap allocation(s)", a1 - a0));
        }
    }
}

// ------------------------------------------------------------------ payload

struct DepthGuard;
impl Drop for DepthGuard {
    fn drop(&mut self) {
        x(|x| x.depth -= 1);
    }
}

struct ReleaseGuard {
    new: Vec<Id>,
}
impl Drop for ReleaseGuard {
    fn drop(&mut self) {
        m(|m| m.release_end());
    }
}

fn release_begin(t: Id) -> ReleaseGuard {
    let new = m(|m| m.release_begin(t));
    st(St::p_release_frames, 1);
    ReleaseGuard { new }
}

/// A release issued by user code *inside a destructor* (a script action) has
/// returned: what it had to destroy must be destroyed now, not merely by the end of
/// the outermost call. (The target was held by the program, so it is not a member of
/// a group that is being torn down around us.)
fn nested_release_returned(g: &ReleaseGuard) {
    if x(|x| x.depth) == 0 || std::thread::panicking() {
        return;
    }
    for &o in &g.new {
        if m(|m| m.objs.get(&o).map_or(false, |ob| ob.alive && !ob.zombie)) {
            st(St::p_nested_obligation_checks, 1);
            soft(
                "not-collected",
                "nested-release-returned-without-destroying",
                &format!("a handle was released from inside a destructor; object {o} had to be destroyed before that release returned but is still alive"),
            );
        } else {
            st(St::p_nested_obligation_checks, 1);
        }
    }
}

/// Counts observed from inside a destructor, after a script action: exact for every
/// object the program holds (C06 through C10).
fn observe_counts_nested() {
    if !report::soft_enabled(report::S_COUNT) {
        return;
    }
    W.with(|wc| {
        let Ok(wd) = wc.try_borrow() else { return };
        for (hid, r) in wd.hs.iter() {
            let (o, phys, nweak) = m(|m| {
                let o = m.ph[hid];
                let ob = m.obj(o);
                (o, m.phys(o), m.nweak(o, ob.epoch))
            });
            let (sc, wcnt) = sut(|| (Rc::strong_count(r), Rc::weak_count(r)));
            st(St::p_c06_nested_count_checks, 1);
            if sc != phys as usize {
                soft("count-mismatch", "strong_count-inside-destructor", &format!("inside a destructor, Rc::strong_count of held object {o} is {sc}, but {phys} strong handles exist"));
            }
            if wcnt != nweak as usize {
                soft("count-mismatch", "weak_count-inside-destructor", &format!("inside a destructor, Rc::weak_count of held object {o} is {wcnt}, but {nweak} Weak handles exist"));
            }
        }
    });
}

impl Drop for Node {
    fn drop(&mut self) {
        har(|| self.destroy());
    }
}

impl Node {
    fn destroy(&mut self) {
        c14_close();
        let id = self.id.get();
        let canary = self.canary.get();
        bad(m(|m| m.destroy_begin(id, canary)));
        if m(|m| m.stale_destruction) {
            report::F_STALE_DESTRUCTION.store(true, Relaxed);
        }
        self.canary.set(CANARY_DEAD);
        st(St::dtor_events, 1);
        st(St::p_destroyed, 1);
        let k = x(|x| {
            let k = x.dtor_counter;
            x.dtor_counter += 1;
            x.depth += 1;
            x.order_digest = fnv(x.order_digest, id as u64);
            k
        });
        let _d = DepthGuard;
        if x(|x| x.record_dtors) {
            let snap = har(|| {
                let handles: Vec<(Id, Id)> = m(|m| m.ph.iter().map(|(&h, &o)| (h, o)).collect());
                let weaks: Vec<(Id, Id)> = m(|m| m.pw.iter().map(|(&w, &(o, _))| (w, o)).collect());
                let own_slots: Vec<(Id, Id)> = self.slots.borrow().iter().map(|s| (s.id, s.target)).collect();
                let takeable: Vec<(Id, Id, Id)> = m(|m| {
                    let mut v = vec![];
                    for (&h, &o) in m.ph.iter() {
                        if let Some(ob) = m.objs.get(&o) {
                            if ob.alive {
                                for &(sid, t) in &ob.slots {
                                    v.push((h, sid, t));
                                }
                            }
                        }
                    }
                    v
                });
                DtorSnap { obj: id, handles, weaks, own_slots, takeable, depth: x(|x| x.depth) }
            });
            x(|x| x.dtors.push(snap));
        }
        // fault: the destructor panics at its START; everything the value owns is then
        // released while the thread is unwinding (what field drop glue does after a
        // panicking `Drop::drop`), i.e. nested teardowns run with `thread::panicking()`
        let carry = x(|x| x.faults.panic_carry_at.contains(&k));
        let early = carry || x(|x| x.faults.panic_early_at.contains(&k));
        if early && !std::thread::panicking() {
            x(|x| {
                x.fired_panics += 1;
                x.panic_in_call = true;
                x.any_panic = true;
                note_panic_scope(x);
            });
            report::F_PANIC.store(true, Relaxed);
            st(St::f_dtor_panic_early, 1);
            struct ReleaseOnUnwind<'a>(&'a Node, Id, u32);
            impl Drop for ReleaseOnUnwind<'_> {
                fn drop(&mut self) {
                    let _ = har(|| self.0.release_all(self.1, self.2));
                }
            }
            let mut carried = Carried::default();
            if carry {
                // the stored strong handles leave with the payload: the model counts them
                // as temporaries of the program until the payload is dropped
                let slots = std::mem::take(&mut *self.slots.borrow_mut());
                for sl in slots {
                    m(|m| {
                        if let Some(ob) = m.objs.get_mut(&id) {
                            if let Some(p) = ob.slots.iter().position(|&(sid, _)| sid == sl.id) {
                                ob.slots.remove(p);
                            }
                        }
                        // a handle to a member of the group that is being torn down is a
                        // dead handle (its target was condemned before any destructor ran):
                        // it keeps nothing alive; anything else is held by the payload
                        let doomed = m.obligations.contains(&sl.target) || !m.is_alive(sl.target);
                        if !doomed {
                            m.temps.push(sl.target);
                        }
                    });
                    carried.0.push((sl.target, sl.h));
                }
                st(St::f_panic_payload_carries_handles, carried.0.len() as u64);
            }
            let _g = ReleaseOnUnwind(self, id, k);
            std::panic::panic_any(Injected(k, carried));
        }
        let pending = self.release_all(id, k);

        let armed = x(|x| x.faults.panic_at.contains(&k));
        if armed && pending.is_none() && !std::thread::panicking() {
            x(|x| {
                x.fired_panics += 1;
                x.panic_in_call = true;
                x.any_panic = true;
                note_panic_scope(x);
            });
            report::F_PANIC.store(true, Relaxed);
            st(St::f_dtor_panic, 1);
            std::panic::panic_any(Injected(k, Carried::default()));
        }
        if let Some(p) = pending {
            if !std::thread::panicking() {
                resume_unwind(p);
            }
        }
    }
}

impl Node {
    /// Everything a dying value does with what it owns: observe and drop its stored
    /// Weak handles, run the scripted and inline destructor-side calls, release its
    /// stored strong handles one by one. Returns a panic caught on the way, if any.
    fn release_all(&self, id: Id, k: u32) -> Option<Box<dyn std::any::Any + Send>> {
        let mut pending: Option<Box<dyn std::any::Any + Send>> = None;

        // Weak handles stored in the value: upgrade each (a dying peer must give
        // None, a live outsider Some), then drop it.
        let weaks = std::mem::take(&mut *self.weaks.borrow_mut());
        for ws in weaks {
            st(St::f_weak_upgrade_in_dtor, 1);
            if report::soft_enabled(report::S_WEAK) {
                // counts through a Weak, observed from inside a destructor: zero for a
                // destroyed target, exact for a target the program can still reach
                // (a dying peer that has not been destroyed yet is not judged here)
                let (sc, wcnt) = weak_call(|| (ws.w.strong_count(), ws.w.weak_count()));
                let (gone, held, phys, nweak) = m(|m| (!m.weak_alive(ws.target, ws.epoch), m.must_live().contains(&ws.target), m.phys(ws.target), m.nweak(ws.target, ws.epoch)));
                if gone && (sc != 0 || wcnt != 0) {
                    soft("dead-weak-counts", "nonzero-inside-destructor", &format!("inside the destructor of {id}, a Weak to destroyed object {} reports strong_count {sc}, weak_count {wcnt}", ws.target));
                } else if !gone && held && (sc != phys as usize || wcnt != nweak as usize) {
                    soft("weak-counts", "live-target-inside-destructor", &format!("inside the destructor of {id}, a Weak to reachable object {} reports strong_count {sc} (expected {phys}), weak_count {wcnt} (expected {nweak})", ws.target));
                }
            }
            let up = weak_call(|| ws.w.upgrade());
            record_upgrade_obs(id, ws.target, ws.epoch, up.is_some());
            if let Some(r) = up {
                // the temporary is never counted by the model: it is released at once
                let _g = release_begin(ws.target);
                let r2 = catch_unwind(AssertUnwindSafe(|| sut(|| drop(r))));
                if let Err(p) = r2 {
                    pending.get_or_insert(p);
                }
            }
            m(|m| {
                if let Some(ob) = m.objs.get_mut(&id) {
                    if let Some(p) = ob.wslots.iter().position(|&(wid, _, _)| wid == ws.id) {
                        ob.wslots.remove(p);
                    }
                }
            });
            weak_call(|| drop(ws.w));
        }

        // Scripted re-entrant actions.
        let script = x(|x| {
            if let Some(p) = x.faults.scripts.iter().position(|(kk, _)| *kk == k) {
                x.fired_scripts += 1;
                Some(x.faults.scripts[p].1.clone())
            } else {
                None
            }
        });
        if let Some(ops) = script {
            report::F_SCRIPT.store(true, Relaxed);
            st(St::f_dtor_script, 1);
            for op in &ops {
                let before = m(|m| m.destroyed_log.len());
                report::ctx_push_op(&format!("[dtor {k}: {}]", op.text()), false);
                let r = catch_unwind(AssertUnwindSafe(|| exec(op, Some(self))));
                match r {
                    Ok(did) => {
                        if did {
                            st(St::f_script_action, 1);
                        }
                    }
                    Err(p) => {
                        pending.get_or_insert(p);
                    }
                }
                if m(|m| m.destroyed_log.len()) > before {
                    st(St::f_nested_collection, 1);
                    x(|x| x.nested_destroy_in_script += 1);
                }
                if pending.is_none() {
                    observe_counts_nested();
                }
            }
        }

        // Destructor-side calls that are part of the history itself: recorded ones
        // (replay) or, when the run's knob says so, a downgrade of stored handles
        // (possibly handles to dying peers) whose Weak outlives the teardown.
        let mut inline_ops: Vec<Op> = x(|x| x.faults.inline.iter().find(|(kk, _)| *kk == k).map(|(_, v)| v.clone()).unwrap_or_default());
        for op in &inline_ops {
            report::ctx_push_op(&format!("@{k} {}", op.text()), false);
        }
        let dg = x(|x| x.dtor_downgrade_p);
        if dg > 0 {
            let n = self.slots.borrow().len();
            for idx in 0..n {
                let (hit, wid) = x(|x| {
                    let hit = x.dtor_rng.chance(dg, 8);
                    if hit {
                        x.dtor_auto += 1;
                    }
                    (hit, 2_000_000 + x.dtor_auto)
                });
                if hit {
                    let op = Op::SelfDowngradeSlot { idx: idx as Id, w: wid };
                    report::ctx_push_op(&format!("@{k} {}", op.text()), false);
                    inline_ops.push(op);
                }
            }
        }
        if !inline_ops.is_empty() {
            x(|x| x.inline_record.push((k, inline_ops.clone())));
        }
        for op in &inline_ops {
            let r = catch_unwind(AssertUnwindSafe(|| exec(op, Some(self))));
            if let Err(p) = r {
                pending.get_or_insert(p);
            }
        }

        // Release the stored strong handles one by one.
        loop {
            let s = {
                let mut v = self.slots.borrow_mut();
                if v.is_empty() {
                    break;
                }
                v.remove(0)
            };
            let dead = m(|m| !m.is_alive(s.target));
            if dead {
                st(St::f_dead_handle_drop_in_dtor, 1);
            }
            m(|m| {
                if let Some(ob) = m.objs.get_mut(&id) {
                    if let Some(p) = ob.slots.iter().position(|&(sid, _)| sid == s.id) {
                        ob.slots.remove(p);
                    }
                }
            });
            c14_open(s.target);
            let _g = release_begin(s.target);
            let h = s.h;
            let r = catch_unwind(AssertUnwindSafe(move || sut(move || drop(h))));
            c14_close();
            if let Err(p) = r {
                pending.get_or_insert(p);
            }
        }

        pending
    }
}

impl Clone for Node {
    fn clone(&self) -> Node {
        har(|| {
            let src = self.id.get();
            // fault: the value's Clone impl panics (before it has produced anything)
            let armed = x(|x| {
                let c = x.clone_counter;
                x.clone_counter += 1;
                x.faults.clone_panic_at.contains(&c)
            });
            if armed && !std::thread::panicking() {
                x(|x| {
                    x.fired_panics += 1;
                    x.panic_in_call = true;
                    x.any_panic = true;
                    note_panic_scope(x);
                });
                report::F_PANIC.store(true, Relaxed);
                st(St::f_clone_panic, 1);
                std::panic::panic_any(Injected(u32::MAX, Carried::default()));
            }
            let (dst, o2) = match x(|x| x.pending_clone.take()) {
                Some(p) => p,
                // the model predicted that make_mut would not clone (the handle is the
                // only strong handle): the library disagrees about the count
                None => violation("api-result", "make_mut-cloned-a-unique-value", &format!("make_mut cloned the value of object {src} although the handle is its only strong handle")),
            };
            let n = Node::new(o2);
            m(|m| {
                m.objs.insert(o2, Obj { alive: true, rc: true, ..Obj::default() });
            });
            let shallow = x(|x| x.shallow_clone);
            for s in self.slots.borrow().iter() {
                if shallow {
                    break;
                }
                let c = sut(|| Rc::clone(&s.h));
                let sid = m(|m| {
                    let sid = m.auto_id();
                    m.obj_mut(o2).slots.push((sid, s.target));
                    sid
                });
                n.slots.borrow_mut().push(Slot { id: sid, target: s.target, h: c });
            }
            for ws in self.weaks.borrow().iter() {
                if shallow {
                    break;
                }
                let c = weak_call(|| ws.w.clone());
                let wid = m(|m| {
                    let wid = m.auto_id();
                    m.obj_mut(o2).wslots.push((wid, ws.target, ws.epoch));
                    wid
                });
                n.weaks.borrow_mut().push(WSlot { id: wid, target: ws.target, epoch: ws.epoch, w: c });
            }
            // a Clone impl with a side effect: it releases every other handle the program
            // holds to the object being cloned (a registry that detaches on copy), so the
            // handle make_mut is about to give up may have become the last outside one
            if x(|x| x.clone_releases) {
                let others: Vec<Id> = m(|m| m.ph.iter().filter(|&(_, &o)| o == src).map(|(&h, _)| h).collect());
                for h2 in others {
                    if w(|w| w.hs.contains_key(&h2)) && !x(|x| x.pinned.contains(&h2)) {
                        st(St::f_clone_impl_releases_handle, 1);
                        exec(&Op::Drop { h: h2 }, None);
                    }
                }
            }
            // From here on the library owns a new allocation holding `n`, and it is
            // about to release the old handle `h`.
            m(|m| {
                match dst {
                    CloneDst::Prog(h) => {
                        m.ph.insert(h, o2);
                    }
                    CloneDst::Slot(oo, sid) => {
                        if let Some(e) = m.obj_mut(oo).slots.iter_mut().find(|(s, _)| *s == sid) {
                            e.1 = o2;
                        }
                    }
                }
                m.release_begin(src);
            });
            x(|x| x.clone_done = Some(o2));
            n
        })
    }
}

fn record_upgrade_obs(inn: Id, target: Id, epoch: u32, some: bool) {
    st(St::p_dtor_weak_obs, 1);
    let (destroyed_or_gone, doomed) = m(|m| (!m.weak_alive(target, epoch), m.obligations.contains(&target)));
    if some && destroyed_or_gone {
        violation("weak-resurrect", "upgrade-of-destroyed-object", &format!("Weak::upgrade inside the destructor of {inn} returned a handle to object {target}, whose value is already destroyed or moved out"));
    }
    if some && doomed {
        violation("weak-resurrect", "upgrade-of-dying-peer", &format!("Weak::upgrade inside the destructor of {inn} returned a handle to object {target}, which is being destroyed by the same operation"));
    }
    if !some {
        if doomed || destroyed_or_gone {
            st(St::f_weak_upgrade_dying_peer_none, 1);
        }
        m(|m| {
            let log_len = m.destroyed_log.len();
            m.weak_obs.push(WeakObs { inn, target, epoch, some, log_len, doomed });
        });
    }
}

// ------------------------------------------------------------------ exec

fn has_records(o: Id) -> bool {
    m(|m| m.objs.get(&o).map_or(false, |ob| ob.ever_recorded) && !m.row_empty(o))
}

fn mark_consuming(o: Id) {
    if has_records(o) {
        report::F_CONSUMING.store(true, Relaxed);
        st(St::f_consuming_on_adopted, 1);
    }
}

/// The active log backend (user code inside the `log` facade): called for every record the
/// library emits. It drops one Weak handle the program holds to an object that is already
/// dead - the smallest-numbered one - the way a registry prunes dead entries while it logs.
pub fn log_backend_hook() {
    if !crate::alloc::in_sut() || std::thread::panicking() {
        return;
    }
    har(|| {
        let pick = m(|m| m.pw.iter().find(|(_, &(o, e))| !m.weak_alive(o, e)).map(|(&w, _)| w));
        let Some(wid) = pick else { return };
        let Some(wk) = w(|w| w.ws.remove(&wid)) else { return };
        m(|m| {
            m.pw.remove(&wid);
        });
        st(St::f_log_backend_drops_weak, 1);
        weak_call(move || drop(wk));
    })
}

/// Execute one call. Returns false if it was a no-op (operand missing).
pub fn exec(op: &Op, dying: Option<&Node>) -> bool {
    let did = exec_inner(op, dying);
    if did {
        st(St::calls, 1);
    } else {
        st(St::op_noop, 1);
    }
    did
}

fn as_uninit(r: Rc<Node>) -> Rc<std::mem::MaybeUninit<Node>> {
    // same representation (one thin pointer); only the static type differs
    unsafe { std::mem::transmute::<Rc<Node>, Rc<std::mem::MaybeUninit<Node>>>(r) }
}

fn as_init_typed(r: Rc<std::mem::MaybeUninit<Node>>) -> Rc<Node> {
    unsafe { std::mem::transmute::<Rc<std::mem::MaybeUninit<Node>>, Rc<Node>>(r) }
}

/// `Rc::assume_init` on program handle `h` if its static type is still the uninit one.
fn assume_now(h: Id) {
    if !w(|w| w.uninit.remove(&h)) {
        return;
    }
    let Some(r) = w(|w| w.hs.remove(&h)) else { return };
    let before = verif::rcbox_addr(&r);
    let u = as_uninit(r);
    let r2 = sut(|| unsafe { u.assume_init() });
    if verif::rcbox_addr(&r2) != before {
        violation("identity", "assume_init-moved", "assume_init returned a handle to a different allocation");
    }
    w(|w| w.hs.insert(h, r2));
    st(St::op_assume_init, 1);
}

/// Program handles a call uses in a way that needs the type `Rc<Node>`.
fn needs_init(op: &Op) -> Vec<Id> {
    match *op {
        Op::CloneFrom { dst: h, .. } | Op::Drop { h } | Op::SelfSame { h } | Op::UnSelfSame { h } | Op::Downgrade { h, .. } | Op::TryUnwrap { h, .. } | Op::MakeMut { h, .. } | Op::GetMut { h } | Op::IntoRaw { h, .. } | Op::AssumeInit { h } => vec![h],
        Op::Store { h, owner, adopt } => {
            if adopt {
                vec![h, owner]
            } else {
                vec![h]
            }
        }
        Op::Take { owner, unadopt, .. } => {
            if unadopt {
                vec![owner]
            } else {
                vec![]
            }
        }
        Op::SlotMakeMut { owner, .. } => vec![owner],
        Op::Adopt { owner, target } | Op::Unadopt { owner, target } => {
            let both = w(|w| w.uninit.contains(&owner) && w.uninit.contains(&target));
            if both {
                vec![]
            } else {
                vec![owner, target]
            }
        }
        _ => vec![],
    }
}

fn exec_inner(op: &Op, dying: Option<&Node>) -> bool {
    if w(|w| !w.uninit.is_empty()) {
        for h in needs_init(op) {
            assume_now(h);
        }
    }
    match *op {
        Op::AssumeInit { h } => w(|w| w.hs.contains_key(&h)),
        Op::New { o, h } | Op::NewU { o, h } => {
            if w(|w| w.hs.contains_key(&h)) || m(|m| m.objs.contains_key(&o)) {
                return false;
            }
            let node = Node::new(o);
            let two_phase = matches!(*op, Op::NewU { .. });
            let r = if two_phase {
                sut(|| {
                    let mut u = Rc::<Node>::new_uninit();
                    unsafe {
                        Rc::get_mut_unchecked(&mut u).as_mut_ptr().write(node);
                    }
                    as_init_typed(u)
                })
            } else {
                sut(|| Rc::new(node))
            };
            if two_phase {
                w(|w| w.uninit.insert(h));
                st(St::op_new_uninit, 1);
            }
            let addr = verif::rcbox_addr(&r);
            let vp = Rc::as_ptr(&r) as usize;
            m(|m| {
                m.objs.insert(o, Obj { alive: true, rc: true, addr, addr_gen: alloc::block_gen(addr), ..Obj::default() });
                m.addr_map.insert(addr, (o, 0));
                m.ph.insert(h, o);
                let n = m.objs.values().filter(|x| x.alive).count() as u64;
                st_max(St::p_objects_max, n);
            });
            w(|w| {
                w.as_ptr.insert((o, 0), vp);
                w.hs.insert(h, r);
            });
            st(St::op_new, 1);
            true
        }
        Op::Clone { h, d } => {
            if w(|w| !w.hs.contains_key(&h) || w.hs.contains_key(&d)) {
                return false;
            }
            let o = m(|m| m.ph[&h]);
            c14_open(o);
            let c = w(|w| {
                let r = w.hs.get(&h).unwrap();
                sut(|| Rc::clone(r))
            });
            c14_close();
            m(|m| {
                m.ph.insert(d, o);
            });
            w(|w| {
                if w.uninit.contains(&h) {
                    w.uninit.insert(d);
                }
                w.hs.insert(d, c)
            });
            st(St::op_clone, 1);
            true
        }
        Op::Drop { h } => {
            let Some(r) = w(|w| w.hs.remove(&h)) else { return false };
            let o = m(|m| m.ph.remove(&h).unwrap());
            st(St::op_drop, 1);
            c14_open(o);
            let g = release_begin(o);
            sut(move || drop(r));
            c14_close();
            nested_release_returned(&g);
            true
        }
        Op::CloneFrom { dst, src } => {
            if dst == src || w(|w| !w.hs.contains_key(&dst) || !w.hs.contains_key(&src)) {
                return false;
            }
            // both handles are borrowed for the duration of the call: destructor-side
            // code cannot use them
            let (mut a, b) = w(|w| (w.hs.remove(&dst).unwrap(), w.hs.remove(&src).unwrap()));
            let (old, new) = m(|m| (m.ph[&dst], m.ph[&src]));
            m(|m| {
                m.ph.insert(dst, new);
            });
            st(St::op_clone_from, 1);
            if old != new {
                mark_consuming(old);
            }
            let g = release_begin(old);
            let r = catch_unwind(AssertUnwindSafe(|| sut(|| a.clone_from(&b))));
            let same = Rc::ptr_eq(&a, &b);
            w(|w| {
                w.hs.insert(dst, a);
                w.hs.insert(src, b);
            });
            if let Err(p) = r {
                drop(g);
                resume_unwind(p);
            }
            if !same {
                violation("api-result", "clone_from-wrong-target", "after a.clone_from(&b) the two handles do not point to the same allocation");
            }
            nested_release_returned(&g);
            true
        }
        Op::Store { h, owner, adopt } => {
            if h == owner || w(|w| !w.hs.contains_key(&h) || !w.hs.contains_key(&owner)) {
                return false;
            }
            let r = w(|w| w.hs.remove(&h).unwrap());
            let (oid, tid) = m(|m| (m.ph[&owner], m.ph.remove(&h).unwrap()));
            w(|w| {
                let o = w.hs.get(&owner).unwrap();
                if adopt {
                    sut(|| unsafe { Rc::adopt_unchecked(o, &r) });
                }
                o.slots.borrow_mut().push(Slot { id: h, target: tid, h: r });
            });
            m(|m| {
                m.obj_mut(oid).slots.push((h, tid));
                if adopt {
                    m.ledger_add(oid, tid);
                    if m.adopt[&(oid, tid)] > 1 {
                        st(St::p_parallel_edges, 1);
                    }
                }
            });
            st(St::op_store, 1);
            if adopt {
                st(St::op_store_adopt, 1);
                if oid == tid {
                    st(St::f_self_adopt_clone, 1);
                }
            } else {
                st(St::f_partial_recording, 1);
            }
            true
        }
        Op::Take { owner, slot, unadopt } => {
            if w(|w| !w.hs.contains_key(&owner) || w.hs.contains_key(&slot)) {
                return false;
            }
            let taken = w(|w| {
                let o = w.hs.get(&owner).unwrap();
                let pos = o.slots.borrow().iter().position(|s| s.id == slot);
                let Some(pos) = pos else { return None };
                let s = o.slots.borrow_mut().remove(pos);
                if unadopt {
                    sut(|| Rc::unadopt(o, &s.h));
                }
                let t = s.target;
                w.hs.insert(slot, s.h);
                Some(t)
            });
            let Some(tid) = taken else { return false };
            let elided = m(|m| {
                let oid = m.ph[&owner];
                let ob = m.obj_mut(oid);
                let p = ob.slots.iter().position(|&(sid, _)| sid == slot).unwrap();
                ob.slots.remove(p);
                m.ph.insert(slot, tid);
                if unadopt {
                    m.ledger_remove_one(oid, tid);
                    false
                } else {
                    let rec = *m.adopt.get(&(oid, tid)).unwrap_or(&0);
                    let e = rec > m.held(oid, tid);
                    if e {
                        m.elided = true;
                    }
                    m.recompute_p();
                    e
                }
            });
            st(St::op_take, 1);
            if elided {
                report::F_ELIDED.store(true, Relaxed);
                st(St::op_take_elided, 1);
                st(St::f_elided_unadopt, 1);
            }
            true
        }
        Op::Adopt { owner, target } => {
            if owner == target || w(|w| !w.hs.contains_key(&owner) || !w.hs.contains_key(&target)) {
                return false;
            }
            let (oid, tid) = m(|m| (m.ph[&owner], m.ph[&target]));
            // only ever record a handle the owner really holds (C01's precondition)
            let ok = m(|m| m.held(oid, tid) > *m.adopt.get(&(oid, tid)).unwrap_or(&0));
            if !ok {
                return false;
            }
            if w(|w| w.uninit.contains(&owner)) {
                // both handles are still `Rc<MaybeUninit<Node>>` (needs_init made sure)
                let (o, t) = w(|w| (as_uninit(w.hs.remove(&owner).unwrap()), as_uninit(w.hs.remove(&target).unwrap())));
                sut(|| unsafe { Rc::adopt_unchecked(&o, &t) });
                w(|w| {
                    w.hs.insert(owner, as_init_typed(o));
                    w.hs.insert(target, as_init_typed(t));
                });
                st(St::f_adopt_before_assume_init, 1);
            } else {
                w(|w| {
                    let (o, t) = (w.hs.get(&owner).unwrap(), w.hs.get(&target).unwrap());
                    sut(|| unsafe { Rc::adopt_unchecked(o, t) });
                });
            }
            m(|m| m.ledger_add(oid, tid));
            st(St::op_adopt, 1);
            true
        }
        Op::Unadopt { owner, target } => {
            if owner == target || w(|w| !w.hs.contains_key(&owner) || !w.hs.contains_key(&target)) {
                return false;
            }
            let (oid, tid) = m(|m| (m.ph[&owner], m.ph[&target]));
            if w(|w| w.uninit.contains(&owner)) {
                let (o, t) = w(|w| (as_uninit(w.hs.remove(&owner).unwrap()), as_uninit(w.hs.remove(&target).unwrap())));
                sut(|| Rc::unadopt(&o, &t));
                w(|w| {
                    w.hs.insert(owner, as_init_typed(o));
                    w.hs.insert(target, as_init_typed(t));
                });
            } else {
                w(|w| {
                    let (o, t) = (w.hs.get(&owner).unwrap(), w.hs.get(&target).unwrap());
                    sut(|| Rc::unadopt(o, t));
                });
            }
            let had = m(|m| m.ledger_remove_one(oid, tid));
            st(St::op_unadopt, 1);
            if !had {
                st(St::op_unadopt_unmatched, 1);
                st(St::f_unmatched_unadopt, 1);
            }
            true
        }
        Op::SelfSame { h } => {
            if w(|w| !w.hs.contains_key(&h)) {
                return false;
            }
            w(|w| {
                let r = w.hs.get(&h).unwrap();
                sut(|| unsafe { Rc::adopt_unchecked(r, r) });
            });
            m(|m| {
                let o = m.ph[&h];
                m.obj_mut(o).selfsame += 1;
                m.obj_mut(o).had_table = true;
            });
            st(St::op_selfsame, 1);
            st(St::f_same_handle_self_adopt, 1);
            true
        }
        Op::UnSelfSame { h } => {
            if w(|w| !w.hs.contains_key(&h)) {
                return false;
            }
            w(|w| {
                let r = w.hs.get(&h).unwrap();
                sut(|| Rc::unadopt(r, r));
            });
            m(|m| {
                let o = m.ph[&h];
                let ob = m.obj_mut(o);
                ob.selfsame = ob.selfsame.saturating_sub(1);
            });
            st(St::op_unselfsame, 1);
            true
        }
        Op::Downgrade { h, w: wid } => {
            if w(|w| !w.hs.contains_key(&h) || w.ws.contains_key(&wid)) {
                return false;
            }
            let wk = w(|w| {
                let r = w.hs.get(&h).unwrap();
                sut(|| Rc::downgrade(r))
            });
            m(|m| {
                let o = m.ph[&h];
                let e = m.obj(o).epoch;
                m.pw.insert(wid, (o, e));
            });
            w(|w| w.ws.insert(wid, wk));
            st(St::op_downgrade, 1);
            true
        }
        Op::Upgrade { w: wid, d } => {
            if w(|w| !w.ws.contains_key(&wid) || w.hs.contains_key(&d)) {
                return false;
            }
            let (t, e) = m(|m| m.pw[&wid]);
            let up = w(|w| {
                let wk = w.ws.get(&wid).unwrap();
                weak_call(|| wk.upgrade())
            });
            st(St::op_upgrade, 1);
            st(St::p_c05_upgrade_checks, 1);
            let depth = x(|x| x.depth);
            let expect = m(|m| m.weak_alive(t, e));
            if depth == 0 {
                if up.is_some() != expect {
                    if up.is_some() {
                        std::mem::forget(up);
                        violation("weak-resurrect", "some-for-destroyed", &format!("Weak::upgrade returned a handle to object {t}, whose value has been destroyed or moved out"));
                    } else {
                        soft("upgrade-wrong", "none-for-live", &format!("Weak::upgrade returned None for live object {t}"));
                    }
                }
            } else {
                let inn = dying.map_or(Id::MAX, |n| n.id.get());
                record_upgrade_obs(inn, t, e, up.is_some());
            }
            match up {
                Some(r) => {
                    st(St::op_upgrade_some, 1);
                    m(|m| {
                        m.ph.insert(d, t);
                    });
                    w(|w| w.hs.insert(d, r));
                }
                None => st(St::op_upgrade_none, 1),
            }
            true
        }
        Op::WeakClone { w: wid, d } => {
            if w(|w| !w.ws.contains_key(&wid) || w.ws.contains_key(&d)) {
                return false;
            }
            let c = w(|w| {
                let wk = w.ws.get(&wid).unwrap();
                weak_call(|| wk.clone())
            });
            m(|m| {
                let v = m.pw[&wid];
                m.pw.insert(d, v);
            });
            w(|w| w.ws.insert(d, c));
            st(St::op_weakclone, 1);
            true
        }
        Op::WeakRaw { w: wid } => {
            let Some(wk) = w(|w| w.ws.remove(&wid)) else { return false };
            let (o, epoch) = m(|m| m.pw[&wid]);
            let alive = m(|m| m.weak_alive(o, epoch));
            let expect = w(|w| w.as_ptr.get(&(o, epoch)).copied());
            let (p, wk2) = weak_call(move || {
                let p = Weak::into_raw(wk);
                (p as usize, unsafe { Weak::from_raw(p) })
            });
            w(|w| w.ws.insert(wid, wk2));
            if alive && expect.map_or(false, |e| e != p) {
                violation("api-result", "weak-into_raw-address", &format!("Weak::into_raw on a Weak to live object {o} returned {p:#x}, the value is at {:#x}", expect.unwrap()));
            }
            st(St::op_weakraw, 1);
            if !alive {
                st(St::f_weak_raw_round_trip_dead, 1);
            }
            true
        }
        Op::WeakDrop { w: wid } => {
            let Some(wk) = w(|w| w.ws.remove(&wid)) else { return false };
            m(|m| {
                m.pw.remove(&wid);
            });
            weak_call(move || drop(wk));
            st(St::op_weakdrop, 1);
            true
        }
        Op::StoreWeak { w: wid, owner } => {
            if w(|w| !w.ws.contains_key(&wid) || !w.hs.contains_key(&owner)) {
                return false;
            }
            let (t, e) = m(|m| m.pw.remove(&wid).unwrap());
            w(|w| {
                let wk = w.ws.remove(&wid).unwrap();
                let o = w.hs.get(&owner).unwrap();
                o.weaks.borrow_mut().push(WSlot { id: wid, target: t, epoch: e, w: wk });
            });
            m(|m| {
                let oid = m.ph[&owner];
                m.obj_mut(oid).wslots.push((wid, t, e));
            });
            st(St::op_storeweak, 1);
            st(St::f_weak_inside_value, 1);
            true
        }
        Op::TryUnwrap { h, v } => {
            if w(|w| !w.hs.contains_key(&h) || w.vals.contains_key(&v)) {
                return false;
            }
            let o = m(|m| m.ph[&h]);
            mark_consuming(o);
            let predicted_ok = m(|m| m.phys(o) == 1);
            let r = w(|w| w.hs.remove(&h).unwrap());
            let res = sut(|| Rc::try_unwrap(r));
            match res {
                Ok(node) => {
                    if !predicted_ok {
                        std::mem::forget(node);
                        violation("api-result", "try_unwrap-ok-while-shared", &format!("try_unwrap succeeded on object {o} although other strong handles exist"));
                    }
                    m(|m| {
                        m.ph.remove(&h);
                        let ob = m.obj_mut(o);
                        let (addr, epoch, gen) = (ob.addr, ob.epoch, ob.addr_gen);
                        ob.rc = false;
                        ob.epoch += 1;
                        ob.ever_recorded = false;
                        ob.selfsame = 0;
                        ob.had_table = false;
                        m.old_allocs.push(OldAlloc { addr, gen, obj: o, epoch });
                        m.ledger_purge(o);
                        m.loose.insert(v, o);
                    });
                    w(|w| w.vals.insert(v, node));
                    st(St::op_tryunwrap_ok, 1);
                }
                Err(r) => {
                    if predicted_ok {
                        std::mem::forget(r);
                        violation("api-result", "try_unwrap-err-while-unique", &format!("try_unwrap failed on object {o} although the handle was the only strong handle"));
                    }
                    w(|w| w.hs.insert(h, r));
                    st(St::op_tryunwrap_err, 1);
                }
            }
            true
        }
        Op::MakeMut { h, o2 } => {
            if w(|w| !w.hs.contains_key(&h)) || m(|m| m.objs.contains_key(&o2)) {
                return false;
            }
            let o = m(|m| m.ph[&h]);
            let (n, nw, epoch, old_addr) = m(|m| {
                let ob = m.obj(o);
                (m.phys(o), m.nweak(o, ob.epoch), ob.epoch, ob.addr)
            });
            mark_consuming(o);
            let mut r = w(|w| w.hs.remove(&h).unwrap());
            if n != 1 {
                // clone path: Node::clone will run, then the old handle is released
                x(|x| {
                    x.pending_clone = Some((CloneDst::Prog(h), o2));
                    x.clone_done = None;
                });
                struct CloneRelease;
                impl Drop for CloneRelease {
                    fn drop(&mut self) {
                        if x(|x| x.clone_done.is_some()) {
                            m(|m| m.release_end());
                        }
                    }
                }
                let g = CloneRelease;
                let res = catch_unwind(AssertUnwindSafe(|| {
                    sut(|| {
                        Rc::make_mut(&mut r);
                    })
                }));
                drop(g);
                if let Err(p) = res {
                    // the call unwound (injected panic in the value's Clone or in a
                    // destructor run by the release of the old handle): the program still
                    // owns `r`, whatever it points to now
                    x(|x| x.pending_clone = None);
                    if x(|x| x.clone_done.take()).is_some() {
                        let addr = verif::rcbox_addr(&r);
                        let vp = Rc::as_ptr(&r) as usize;
                        m(|m| {
                            m.obj_mut(o2).addr = addr;
                            m.obj_mut(o2).addr_gen = alloc::block_gen(addr);
                            m.addr_map.insert(addr, (o2, 0));
                        });
                        w(|w| w.as_ptr.insert((o2, 0), vp));
                    }
                    w(|w| w.hs.insert(h, r));
                    resume_unwind(p);
                }
                let done = x(|x| x.clone_done.take());
                x(|x| x.pending_clone = None);
                if done.is_none() {
                    std::mem::forget(r);
                    violation("api-result", "make_mut-did-not-clone", &format!("make_mut on shared object {o} did not clone the value"));
                }
                let addr = verif::rcbox_addr(&r);
                let vp = Rc::as_ptr(&r) as usize;
                if r.id.get() != o2 {
                    violation("api-result", "make_mut-wrong-value", "make_mut returned a handle to an unexpected value");
                }
                m(|m| {
                    m.obj_mut(o2).addr = addr;
                            m.obj_mut(o2).addr_gen = alloc::block_gen(addr);
                    m.addr_map.insert(addr, (o2, 0));
                });
                w(|w| {
                    w.as_ptr.insert((o2, 0), vp);
                    w.hs.insert(h, r);
                });
                st(St::op_makemut_clone, 1);
            } else if nw != 0 {
                sut(|| {
                    Rc::make_mut(&mut r);
                });
                let addr = verif::rcbox_addr(&r);
                let vp = Rc::as_ptr(&r) as usize;
                if addr == old_addr {
                    violation("api-result", "make_mut-did-not-move", &format!("make_mut on object {o} with outstanding Weak handles did not move the value to a fresh allocation"));
                }
                m(|m| {
                    let ob = m.obj_mut(o);
                    ob.epoch += 1;
                    let old_gen = ob.addr_gen;
                    ob.addr = addr;
                    ob.addr_gen = alloc::block_gen(addr);
                    ob.ever_recorded = false;
                    ob.selfsame = 0;
                        ob.had_table = false;
                    let ne = ob.epoch;
                    m.old_allocs.push(OldAlloc { addr: old_addr, gen: old_gen, obj: o, epoch });
                    m.ledger_purge(o);
                    m.addr_map.insert(addr, (o, ne));
                    w(|w| w.as_ptr.insert((o, ne), vp));
                });
                w(|w| w.hs.insert(h, r));
                st(St::op_makemut_steal, 1);
            } else {
                sut(|| {
                    Rc::make_mut(&mut r);
                });
                if verif::rcbox_addr(&r) != old_addr {
                    violation("api-result", "make_mut-moved-unique", &format!("make_mut on uniquely owned object {o} moved it"));
                }
                w(|w| w.hs.insert(h, r));
                st(St::op_makemut_unique, 1);
            }
            true
        }
        Op::SlotMakeMut { owner, slot, o2 } => {
            if w(|w| !w.hs.contains_key(&owner)) || m(|m| m.objs.contains_key(&o2)) {
                return false;
            }
            let oo = m(|m| m.ph[&owner]);
            // take the stored handle out of the vector for the duration of the call (the
            // library only ever sees `&mut Rc`), put it back at the same position
            let taken = w(|w| {
                let o = w.hs.get(&owner).unwrap();
                let pos = o.slots.borrow().iter().position(|s| s.id == slot)?;
                Some((pos, o.slots.borrow_mut().remove(pos)))
            });
            let Some((pos, mut sl)) = taken else { return false };
            // `owner` is borrowed by this call until it returns
            struct Unpin;
            impl Drop for Unpin {
                fn drop(&mut self) {
                    x(|x| {
                        x.pinned.pop();
                    });
                }
            }
            x(|x| x.pinned.push(owner));
            let _unpin = Unpin;
            let t = sl.target;
            let (n, nw, epoch, old_addr) = m(|m| {
                let ob = m.obj(t);
                (m.phys(t), m.nweak(t, ob.epoch), ob.epoch, ob.addr)
            });
            mark_consuming(t);
            let put_back = |sl: Slot| {
                w(|w| {
                    let o = w.hs.get(&owner).unwrap();
                    let mut v = o.slots.borrow_mut();
                    let p = pos.min(v.len());
                    v.insert(p, sl);
                })
            };
            if n != 1 {
                // clone path: the owner will hold a handle to a new object; a program that
                // keeps its bookkeeping straight removes the record of the old edge first
                let must_unadopt = m(|m| *m.adopt.get(&(oo, t)).unwrap_or(&0) >= m.held(oo, t));
                if must_unadopt {
                    w(|w| {
                        let o = w.hs.get(&owner).unwrap();
                        sut(|| Rc::unadopt(o, &sl.h));
                    });
                    m(|m| {
                        m.ledger_remove_one(oo, t);
                    });
                }
                x(|x| {
                    x.pending_clone = Some((CloneDst::Slot(oo, slot), o2));
                    x.clone_done = None;
                });
                struct CloneRelease;
                impl Drop for CloneRelease {
                    fn drop(&mut self) {
                        if x(|x| x.clone_done.is_some()) {
                            m(|m| m.release_end());
                        }
                    }
                }
                let g = CloneRelease;
                let res = catch_unwind(AssertUnwindSafe(|| {
                    sut(|| {
                        Rc::make_mut(&mut sl.h);
                    })
                }));
                drop(g);
                if let Err(p) = res {
                    // the call unwound: the value still stores the handle, whatever it
                    // points to now
                    x(|x| x.pending_clone = None);
                    if x(|x| x.clone_done.take()).is_some() {
                        let addr = verif::rcbox_addr(&sl.h);
                        let vp = Rc::as_ptr(&sl.h) as usize;
                        m(|m| {
                            m.obj_mut(o2).addr = addr;
                            m.obj_mut(o2).addr_gen = alloc::block_gen(addr);
                            m.addr_map.insert(addr, (o2, 0));
                            m.recompute_p();
                        });
                        w(|w| w.as_ptr.insert((o2, 0), vp));
                        sl.target = o2;
                    }
                    put_back(sl);
                    resume_unwind(p);
                }
                let done = x(|x| x.clone_done.take());
                x(|x| x.pending_clone = None);
                if done.is_none() {
                    std::mem::forget(sl);
                    violation("api-result", "make_mut-did-not-clone", &format!("make_mut on a stored handle to shared object {t} did not clone the value"));
                }
                let addr = verif::rcbox_addr(&sl.h);
                let vp = Rc::as_ptr(&sl.h) as usize;
                m(|m| {
                    m.obj_mut(o2).addr = addr;
                            m.obj_mut(o2).addr_gen = alloc::block_gen(addr);
                    m.addr_map.insert(addr, (o2, 0));
                    m.recompute_p();
                });
                w(|w| {
                    w.as_ptr.insert((o2, 0), vp);
                });
                sl.target = o2;
                put_back(sl);
                st(St::op_makemut_clone, 1);
            } else if nw != 0 {
                sut(|| {
                    Rc::make_mut(&mut sl.h);
                });
                let addr = verif::rcbox_addr(&sl.h);
                let vp = Rc::as_ptr(&sl.h) as usize;
                if addr == old_addr {
                    violation("api-result", "make_mut-did-not-move", &format!("make_mut on a stored handle to object {t} with outstanding Weak handles did not move the value"));
                }
                m(|m| {
                    let ob = m.obj_mut(t);
                    ob.epoch += 1;
                    let old_gen = ob.addr_gen;
                    ob.addr = addr;
                    ob.addr_gen = alloc::block_gen(addr);
                    ob.ever_recorded = false;
                    ob.selfsame = 0;
                    ob.had_table = false;
                    let ne = ob.epoch;
                    m.old_allocs.push(OldAlloc { addr: old_addr, gen: old_gen, obj: t, epoch });
                    m.ledger_purge(t);
                    m.addr_map.insert(addr, (t, ne));
                    w(|w| w.as_ptr.insert((t, ne), vp));
                });
                put_back(sl);
                st(St::op_makemut_steal, 1);
            } else {
                sut(|| {
                    Rc::make_mut(&mut sl.h);
                });
                if verif::rcbox_addr(&sl.h) != old_addr {
                    violation("api-result", "make_mut-moved-unique", &format!("make_mut on a stored handle to uniquely owned object {t} moved it"));
                }
                put_back(sl);
                st(St::op_makemut_unique, 1);
            }
            st(St::op_slot_makemut, 1);
            true
        }
        Op::GetMut { h } => {
            if w(|w| !w.hs.contains_key(&h)) {
                return false;
            }
            let o = m(|m| m.ph[&h]);
            mark_consuming(o);
            let expect = m(|m| m.phys(o) == 1 && m.nweak(o, m.obj(o).epoch) == 0);
            let mut r = w(|w| w.hs.remove(&h).unwrap());
            let got = sut(|| Rc::get_mut(&mut r).is_some());
            w(|w| w.hs.insert(h, r));
            if got != expect {
                soft("api-observation", "get_mut", &format!("get_mut on object {o} returned {} but uniqueness is {}", if got { "Some" } else { "None" }, expect));
            }
            st(if got { St::op_getmut_some } else { St::op_getmut_none }, 1);
            true
        }
        Op::IntoRaw { h, r: rid } => {
            if w(|w| !w.hs.contains_key(&h) || w.raws.contains_key(&rid)) {
                return false;
            }
            let o = m(|m| m.ph[&h]);
            mark_consuming(o);
            let rc = w(|w| w.hs.remove(&h).unwrap());
            let p = sut(|| Rc::into_raw(rc));
            let e = m(|m| m.obj(o).epoch);
            if w(|w| w.as_ptr.get(&(o, e)).copied()) != Some(p as usize) {
                soft("identity", "into_raw", &format!("into_raw of a handle to object {o} returned a pointer different from as_ptr"));
            }
            m(|m| {
                m.ph.remove(&h);
                m.raws.insert(rid, (o, 1));
            });
            w(|w| w.raws.insert(rid, p));
            st(St::op_intoraw, 1);
            st(St::p_raw_ghosts, 1);
            true
        }
        Op::FromRaw { r: rid, h } => {
            if w(|w| !w.raws.contains_key(&rid) || w.hs.contains_key(&h)) {
                return false;
            }
            let p = w(|w| w.raws[&rid]);
            let o = m(|m| {
                let (o, c) = m.raws[&rid];
                if c <= 1 {
                    m.raws.remove(&rid);
                } else {
                    m.raws.insert(rid, (o, c - 1));
                }
                m.ph.insert(h, o);
                o
            });
            if m(|m| !m.raws.contains_key(&rid)) {
                w(|w| w.raws.remove(&rid));
            }
            mark_consuming(o);
            let rc = sut(|| unsafe { Rc::from_raw(p) });
            w(|w| w.hs.insert(h, rc));
            st(St::op_fromraw, 1);
            true
        }
        Op::IncStrong { r: rid } => {
            if w(|w| !w.raws.contains_key(&rid)) {
                return false;
            }
            let p = w(|w| w.raws[&rid]);
            let o = m(|m| m.raws[&rid].0);
            mark_consuming(o);
            sut(|| unsafe { Rc::increment_strong_count(p) });
            m(|m| {
                let (o, c) = m.raws[&rid];
                m.raws.insert(rid, (o, c + 1));
            });
            st(St::op_incstrong, 1);
            true
        }
        Op::DecStrong { r: rid } => {
            if w(|w| !w.raws.contains_key(&rid)) {
                return false;
            }
            let p = w(|w| w.raws[&rid]);
            let o = m(|m| {
                let (o, c) = m.raws[&rid];
                if c <= 1 {
                    m.raws.remove(&rid);
                } else {
                    m.raws.insert(rid, (o, c - 1));
                }
                o
            });
            if m(|m| !m.raws.contains_key(&rid)) {
                w(|w| w.raws.remove(&rid));
            }
            mark_consuming(o);
            let g = release_begin(o);
            sut(|| unsafe { Rc::decrement_strong_count(p) });
            nested_release_returned(&g);
            st(St::op_decstrong, 1);
            true
        }
        Op::DropValue { v } => {
            let Some(node) = w(|w| w.vals.remove(&v)) else { return false };
            m(|m| {
                m.loose.remove(&v);
            });
            drop(node);
            st(St::op_dropvalue, 1);
            true
        }
        Op::Noise { n } => {
            alloc::noise(n as usize);
            st(St::op_noise, 1);
            st(St::f_noise_alloc, n as u64);
            true
        }
        Op::SelfCloneSlot { idx, d } => {
            let Some(node) = dying else { return false };
            if w(|w| w.hs.contains_key(&d)) {
                return false;
            }
            let slots = node.slots.borrow();
            let Some(s) = slots.get(idx as usize) else { return false };
            let t = s.target;
            let (alive, doomed, must) = m(|m| (m.is_alive(t), m.obligations.contains(&t), m.must_live().contains(&t)));
            if x(|x| x.c16_markers) {
                let s = crate::shared::sh();
                s.c16_flags = alive as u64 | (doomed as u64) << 1 | (must as u64) << 2;
                s.c16_target = t as u64;
                s.c16_state = 1;
            }
            if !alive || doomed {
                st(St::f_dead_handle_clone_in_dtor, 1);
            }
            let c = sut(|| Rc::clone(&s.h));
            if x(|x| x.c16_markers) {
                crate::shared::sh().c16_state = 2;
            }
            if !alive || doomed {
                std::mem::forget(c);
                violation("dead-clone-returned", "clone-of-dead-handle-returned", &format!("cloning a handle to destroyed/dying object {t} inside a destructor returned instead of aborting"));
            }
            drop(slots);
            m(|m| {
                m.ph.insert(d, t);
            });
            w(|w| w.hs.insert(d, c));
            true
        }
        Op::SelfDowngradeSlot { idx, w: wid } => {
            let Some(node) = dying else { return false };
            if w(|w| w.ws.contains_key(&wid)) {
                return false;
            }
            let slots = node.slots.borrow();
            let Some(s) = slots.get(idx as usize) else { return false };
            let t = s.target;
            let wk = sut(|| Rc::downgrade(&s.h));
            drop(slots);
            let dead = m(|m| {
                let e = m.objs.get(&t).map_or(0, |ob| ob.epoch);
                m.pw.insert(wid, (t, e));
                !m.is_alive(t)
            });
            w(|w| w.ws.insert(wid, wk));
            st(St::op_downgrade, 1);
            st(if dead { St::f_downgrade_dead_peer_in_dtor } else { St::f_downgrade_live_in_dtor }, 1);
            true
        }
        Op::SelfGetMutSlot { idx } => {
            let Some(node) = dying else { return false };
            let mut v = node.slots.borrow_mut();
            let Some(sl) = v.get_mut(idx as usize) else { return false };
            let t = sl.target;
            let (alive, doomed, phys, nweak) = m(|m| {
                let e = m.objs.get(&t).map_or(0, |o| o.epoch);
                (m.is_alive(t), m.obligations.contains(&t), m.phys(t), m.nweak(t, e))
            });
            let got = sut(|| Rc::get_mut(&mut sl.h).is_some());
            st(St::op_getmut_in_dtor, 1);
            if got && (!alive || doomed) {
                violation("api-result", "get_mut-on-dead-handle", &format!("inside the destructor of {}, Rc::get_mut on the stored handle to object {t}, which is destroyed or being destroyed by the same operation, returned a mutable reference", node.id.get()));
            }
            if alive && !doomed && got != (phys == 1 && nweak == 0) {
                soft("api-result", "get_mut-in-destructor", &format!("inside the destructor of {}, Rc::get_mut on the stored handle to live object {t} returned {}, with {phys} strong and {nweak} Weak handles in existence", node.id.get(), if got { "Some" } else { "None" }));
            }
            true
        }
        Op::SelfDropSlot { idx } => {
            let Some(node) = dying else { return false };
            let s = {
                let mut v = node.slots.borrow_mut();
                if (idx as usize) >= v.len() {
                    return false;
                }
                v.remove(idx as usize)
            };
            let id = node.id.get();
            m(|m| {
                if let Some(ob) = m.objs.get_mut(&id) {
                    if let Some(p) = ob.slots.iter().position(|&(sid, _)| sid == s.id) {
                        ob.slots.remove(p);
                    }
                }
            });
            if m(|m| !m.is_alive(s.target)) {
                st(St::f_dead_handle_drop_in_dtor, 1);
            }
            let _g = release_begin(s.target);
            let h = s.h;
            sut(move || drop(h));
            true
        }
    }
}

// ------------------------------------------------------------------ per-call oracles

/// Run one top-level call under `catch_unwind` and evaluate every oracle afterwards.
pub fn top_level(op: &Op) -> bool {
    x(|x| {
        x.panic_in_call = false;
        x.call_start_log = m(|m| m.destroyed_log.len());
        x.call_start_alive = m(|m| m.objs.values().filter(|o| o.alive && o.rc).count());
        x.call_start_traces = verif::TRACE_CALLS.load(Relaxed);
        x.call_start_visits = verif::TRACE_VISITS.load(Relaxed);
    });
    let r = catch_unwind(AssertUnwindSafe(|| exec(op, None)));
    let (did, panicked) = match r {
        Ok(d) => (d, false),
        Err(p) => {
            if p.downcast_ref::<Injected>().is_none() {
                let msg = if let Some(s) = p.downcast_ref::<&str>() {
                    s.to_string()
                } else if let Some(s) = p.downcast_ref::<String>() {
                    s.clone()
                } else {
                    "non-string panic payload".to_string()
                };
                let loc = crate::last_panic_location();
                // the library is a path dependency (absolute file names); the simulator's own
                // files are reported relative to its crate root
                if loc.contains("/verif/sim/") || loc.contains("/sim/src/") || !loc.starts_with('/') {
                    report::harness_error(&format!("harness panic at {loc}: {msg}"));
                }
                violation("internal-panic", "panic-escaped-from-library", &format!("a panic escaped from the library at {loc}: {msg}"));
            }
            // the program drops the payload; handles it carries are released now
            match p.downcast::<Injected>() {
                Ok(inj) => {
                    let Injected(_, Carried(hs)) = *inj;
                    for (t, h) in hs {
                        m(|m| {
                            if let Some(p) = m.temps.iter().position(|&x| x == t) {
                                m.temps.remove(p);
                            }
                        });
                        let g = release_begin(t);
                        let r = catch_unwind(AssertUnwindSafe(|| sut(move || drop(h))));
                        drop(g);
                        if let Err(p2) = r {
                            std::mem::forget(p2);
                        }
                    }
                }
                Err(p) => std::mem::forget(p),
            }
            (true, true)
        }
    };
    if x(|x| x.panic_in_call) && !panicked {
        soft("panic-not-propagated", "destructor-panic-swallowed", "a destructor panicked during the call but the panic did not reach the caller");
    }
    if did || panicked {
        after_call(panicked);
    }
    did
}

/// Called when an injected panic fires: remember which objects belong to the teardown(s) in
/// progress (condemned, or destroyed earlier in this call).
fn note_panic_scope(x: &mut ExecState) {
    // (a second panic of the same call, caught and replaced on the way, widens the scope)
    let start = x.call_start_log;
    let mut v = x.panic_scope.take().unwrap_or_default();
    m(|m| {
        v.extend(m.obligations.iter().copied());
        v.extend(m.destroyed_log[start.min(m.destroyed_log.len())..].iter().copied());
    });
    x.panic_scope = Some(v);
}

fn after_call(panicked: bool) {
    c14_close();
    if verif::STALE_ACCESS.load(Relaxed) > 0 {
        on_stale_access();
    }
    if report::soft_enabled(report::S_VISITS) {
        // C15 on small histories: a trace visits each object at most once, so the
        // first-time visits of all traces of this call are bounded by (number of
        // traces) x (objects alive when the call began, plus those created by it)
        let (a0, t0, v0) = x(|x| (x.call_start_alive, x.call_start_traces, x.call_start_visits));
        let a1 = m(|m| m.objs.values().filter(|o| o.alive && o.rc).count());
        let (t1, v1) = (verif::TRACE_CALLS.load(Relaxed), verif::TRACE_VISITS.load(Relaxed));
        let bound = (t1 - t0) * a0.max(a1);
        st(St::p_c15_visit_checks, (t1 - t0) as u64);
        if v1 - v0 > bound {
            soft("revisit", "object-visited-more-than-once-per-trace", &format!("{} reachability traces made {} first-time visits although at most {} objects were alive", t1 - t0, v1 - v0, a0.max(a1)));
        }
    }
    let (frames, temps, depth) = (m(|m| m.frames.len()), m(|m| m.temps.len()), x(|x| x.depth));
    if frames != 0 || temps != 0 || depth != 0 {
        report::harness_error(&format!("unbalanced harness state after call: frames={frames} temps={temps} depth={depth}"));
    }
    let start = x(|x| x.call_start_log);

    // C03 (lower bound) and C11 bookkeeping
    m(|m| {
        let obl = std::mem::take(&mut m.obligations);
        st(St::p_obligations, m.obligations_total);
        st(St::p_obligations_group, m.obligations_group);
        m.obligations_total = 0;
        m.obligations_group = 0;
        if panicked {
            // memory of the interrupted teardown may leak (C11): that is the objects that were
            // condemned or already destroyed when the panic fired - not groups that were
            // collected in full while the panic was unwinding
            let scope = x(|x| x.panic_scope.take());
            let destroyed: Vec<Id> = m.destroyed_log[start..].to_vec();
            for o in destroyed {
                if scope.as_ref().map_or(true, |s| s.contains(&o)) {
                    m.obj_mut(o).interrupted = true;
                    st(St::p_interrupted_objects, 1);
                } else {
                    st(St::p_destroyed_in_full_during_unwind, 1);
                }
            }
            for o in obl {
                if m.is_alive(o) {
                    let ob = m.obj_mut(o);
                    ob.zombie = true;
                    ob.interrupted = true;
                    st(St::p_zombies, 1);
                }
            }
        } else {
            for o in obl {
                if m.is_alive(o) {
                    let phys = m.phys(o);
                    soft(
                        "not-collected",
                        if phys == 0 { "no-strong-handle-left" } else { "orphaned-group-left" },
                        &format!("object {o} had to be destroyed before the call returned (strong handles left: {phys}, all of them recorded adoptions held inside its orphaned group) but is still alive"),
                    );
                }
            }
        }
    });

    // C05 deferred observations
    m(|m| {
        let obs = std::mem::take(&mut m.weak_obs);
        for ob in obs {
            if !ob.some && !panicked && m.weak_alive(ob.target, ob.epoch) {
                soft("upgrade-wrong", "none-for-live-in-destructor", &format!("Weak::upgrade inside the destructor of {} returned None for object {}, which is still alive after the call", ob.inn, ob.target));
            }
        }
    });

    if cfg!(miri) {
        // under the interpreter only the library's own memory behaviour is of
        // interest; the observation passes are left to the native runs
        return;
    }
    let any_panic = x(|x| x.any_panic);
    let destroyed_now: Vec<Id> = m(|m| {
        let mut v = m.destroyed_log[start..].to_vec();
        v.sort();
        v
    });
    let mut cd = 0xcbf29ce484222325u64;
    for &o in &destroyed_now {
        cd = fnv(cd, o as u64 + 1);
    }
    if destroyed_now.len() >= 2 {
        st(St::p_group_collected, 1);
        if destroyed_now.len() >= 3 {
            st(St::p_group_ge3, 1);
        }
        if m(|m| !m.ph.is_empty()) {
            st(St::p_outside_survived_collection, 1);
            x(|x| x.collected_group_with_outside_survivor = true);
        }
    }

    // C01 / C06: through every handle the program holds
    let phys_all = m(|m| m.phys_all());
    let nweak_all = m(|m| m.nweak_all());
    let physf = |o: Id| -> u32 { *phys_all.get(&o).unwrap_or(&0) };
    let nweakf = |o: Id, e: u32| -> u32 { *nweak_all.get(&(o, e)).unwrap_or(&0) };
    report::F_HARNESS_DEREF.store(true, Relaxed);
    W.with(|wc| {
        let wd = wc.borrow();
        let handles: Vec<(&Id, &Rc<Node>)> = wd.hs.iter().collect();
        for (hid, r) in &handles {
            let (o, alive, phys, nweak, epoch) = m(|m| {
                let o = m.ph[hid];
                let ob = m.obj(o);
                (o, ob.alive && ob.rc, physf(o), nweakf(o, ob.epoch), ob.epoch)
            });
            if !alive {
                report::harness_error(&format!("program handle {hid} points at dead object {o} without a violation having been raised"));
            }
            st(St::p_c01_deref_checks, 1);
            if r.id.get() != o || r.canary.get() != CANARY ^ o as u64 {
                violation("premature-destruction", "held-value-corrupt", &format!("the value behind held handle {hid} (object {o}) is not intact: id {} canary {:#x}", r.id.get(), r.canary.get()));
            }
            st(St::p_c06_count_checks, 1);
            let (sc, wcnt) = sut(|| (Rc::strong_count(r), Rc::weak_count(r)));
            cd = fnv(fnv(cd, sc as u64), wcnt as u64);
            if sc != phys as usize {
                soft("count-mismatch", "strong_count", &format!("Rc::strong_count of object {o} is {sc}, but {phys} strong handles exist"));
            }
            if wcnt != nweak as usize {
                soft("count-mismatch", "weak_count", &format!("Rc::weak_count of object {o} is {wcnt}, but {nweak} Weak handles exist"));
            }
            let vp = Rc::as_ptr(r) as usize;
            if wd.as_ptr.get(&(o, epoch)).copied() != Some(vp) {
                soft("identity", "as_ptr-changed", &format!("as_ptr of a handle to object {o} differs from the address recorded when the allocation was created"));
            }
        }
        for i in 0..handles.len().min(12) {
            for j in i + 1..handles.len().min(12) {
                let same = m(|m| m.ph[handles[i].0] == m.ph[handles[j].0]);
                if Rc::ptr_eq(handles[i].1, handles[j].1) != same {
                    soft("identity", "ptr_eq", &format!("ptr_eq of handles {} and {} is {}", handles[i].0, handles[j].0, !same));
                }
            }
        }
        // C05: program-held Weak handles
        report::F_HARNESS_DEREF.store(false, Relaxed);
        for (wid, wk) in wd.ws.iter() {
            let (t, e) = m(|m| m.pw[wid]);
            let alive = m(|m| m.weak_alive(t, e));
            let (sc, wcnt) = weak_call(|| (wk.strong_count(), wk.weak_count()));
            cd = fnv(fnv(cd, sc as u64), wcnt as u64);
            if alive {
                let (phys, nweak) = (physf(t), nweakf(t, e));
                if sc != phys as usize || wcnt != nweak as usize {
                    soft("weak-counts", "live-target", &format!("Weak to live object {t}: strong_count {sc} (expected {phys}), weak_count {wcnt} (expected {nweak})"));
                }
                let vp = wk.as_ptr() as usize;
                if wd.as_ptr.get(&(t, e)).copied() != Some(vp) {
                    soft("identity", "weak-as_ptr", &format!("Weak::as_ptr for object {t} differs from the address of its value"));
                }
            } else {
                st(St::p_c05_dead_weak_checks, 1);
                if sc != 0 || wcnt != 0 {
                    soft("dead-weak-counts", "nonzero-after-destruction", &format!("Weak to destroyed object {t} reports strong_count {sc}, weak_count {wcnt}"));
                }
            }
        }
        // C06 for handles stored inside reachable live values, and C08 snapshots
        report::F_HARNESS_DEREF.store(true, Relaxed);
        let mut seen: BTreeSet<Id> = BTreeSet::new();
        let mut work: Vec<&Rc<Node>> = wd.hs.values().collect();
        let loose_nodes: Vec<&Node> = wd.vals.values().collect();
        let mut snaps: Vec<(Id, Vec<(usize, u8, usize)>)> = vec![];
        let visit_slots = |n: &Node, work: &mut Vec<&Rc<Node>>| {
            let slots = n.slots.borrow();
            for s in slots.iter() {
                // SAFETY: the slot vectors are not mutated during this pass.
                let r: &Rc<Node> = unsafe { &*(&s.h as *const Rc<Node>) };
                work.push(r);
            }
        };
        for n in &loose_nodes {
            visit_slots(n, &mut work);
        }
        while let Some(r) = work.pop() {
            let o = r.id.get();
            if !seen.insert(o) {
                continue;
            }
            let (phys, known) = (physf(o), m(|m| m.objs.get(&o).map_or(false, |ob| ob.alive && ob.rc)));
            if !known {
                violation("premature-destruction", "reachable-value-corrupt", &format!("a value reachable from a held handle claims to be object {o}, which is not a live object"));
            }
            let sc = sut(|| Rc::strong_count(r));
            if sc != phys as usize {
                soft("count-mismatch", "strong_count-reachable", &format!("Rc::strong_count of reachable object {o} is {sc}, but {phys} strong handles exist"));
            }
            snaps.push((o, verif::links_snapshot(r)));
            visit_slots(r, &mut work);
        }
        report::F_HARNESS_DEREF.store(false, Relaxed);
        check_ledger(&snaps);
    });
    report::F_HARNESS_DEREF.store(false, Relaxed);

    let _ = any_panic;
    check_memory();

    if !m(|m| m.fully_recorded()) {
        x(|x| x.not_fully_recorded = true);
    }
    x(|x| x.call_digests.push(cd));
}

/// C08: the link tables equal the ledger, are symmetric and name only live objects.
fn check_ledger(snaps: &[(Id, Vec<(usize, u8, usize)>)]) {
    if !report::soft_enabled(report::S_LEDGER) {
        return;
    }
    let mut fwd: BTreeMap<(Id, Id), usize> = BTreeMap::new();
    let mut bwd: BTreeMap<(Id, Id), usize> = BTreeMap::new();
    let mut seen = BTreeSet::new();
    for (o, entries) in snaps {
        seen.insert(*o);
        st(St::p_c08_snapshots, 1);
        for &(addr, kind, count) in entries {
            st(St::p_c08_entries, 1);
            let named = m(|m| m.addr_map.get(&addr).copied());
            let Some((p, e)) = named else {
                soft("stale-record", "record-names-unknown-address", &format!("the bookkeeping of object {o} has an entry for address {addr:#x}, which was never an object allocation"));
                continue;
            };
            let live = m(|m| m.objs.get(&p).map_or(false, |ob| ob.alive && ob.rc && ob.epoch == e));
            if !live {
                soft("stale-record", "record-names-dead-object", &format!("the bookkeeping of object {o} still has an entry (kind {kind}, count {count}) naming object {p}, which is destroyed or whose allocation was given up"));
            }
            if count == 0 {
                soft("ledger-mismatch", "zero-count-entry", &format!("the bookkeeping of object {o} keeps an entry with count 0 for object {p}"));
            }
            match kind {
                verif::KIND_FORWARD => {
                    *fwd.entry((*o, p)).or_insert(0) += count;
                }
                verif::KIND_BACKWARD => {
                    *bwd.entry((p, *o)).or_insert(0) += count;
                }
                _ => {}
            }
        }
    }
    let ledger: BTreeMap<(Id, Id), u32> = m(|m| m.adopt.clone());
    for (&(a, b), &c) in &ledger {
        if seen.contains(&a) {
            let got = *fwd.get(&(a, b)).unwrap_or(&0);
            if got != c as usize {
                soft("ledger-mismatch", "forward-count", &format!("object {a} records {got} adoption(s) of object {b}, the calls made imply {c}"));
            }
        }
        if seen.contains(&b) {
            let got = *bwd.get(&(a, b)).unwrap_or(&0);
            if got != c as usize {
                soft("asymmetric-record", "backward-count", &format!("object {b} records {got} adoption(s) by object {a}, the calls made imply {c}"));
            }
        }
    }
    for (&(a, b), &got) in &fwd {
        if !ledger.contains_key(&(a, b)) {
            soft("ledger-mismatch", "forward-extra", &format!("object {a} records {got} adoption(s) of object {b}, the calls made imply none"));
        }
    }
    for (&(a, b), &got) in &bwd {
        if !ledger.contains_key(&(a, b)) {
            soft("asymmetric-record", "backward-extra", &format!("object {b} records {got} adoption(s) by object {a}, the calls made imply none"));
        }
    }
}

/// C04: allocation accounting.
fn check_memory() {
    if !report::soft_enabled(report::S_LEAK) {
        return;
    }
    let mut expected_rcbox_live = 0usize;
    let mut tables_allowed = 0usize;
    let mut all_dead = true;
    let objs: Vec<(Id, Obj)> = m(|m| m.objs.iter().map(|(&o, ob)| (o, ob.clone())).collect());
    for (o, ob) in &objs {
        if ob.addr == 0 {
            continue;
        }
        st(St::p_c04_block_checks, 1);
        let state = alloc::block_state_gen(ob.addr, ob.addr_gen);
        if ob.rc && (ob.alive || ob.zombie) {
            all_dead = false;
            expected_rcbox_live += 1;
            if ob.had_table {
                tables_allowed += 1;
            }
            if state != BlockState::Live {
                soft("released-early", "allocation-of-live-object-released", &format!("the allocation of live object {o} has been released"));
            }
        } else if ob.rc {
            if ob.interrupted {
                if state == BlockState::Live {
                    // leaked by an interrupted teardown: allowed, and then the heap cannot be
                    // expected to be empty at quiescence
                    expected_rcbox_live += 1;
                    tables_allowed += 1;
                    all_dead = false;
                }
                continue;
            }
            let pinned = m(|m| m.nweak(*o, ob.epoch)) > 0;
            if pinned {
                st(St::p_weak_pinned_alloc, 1);
                all_dead = false;
                expected_rcbox_live += 1;
                if state != BlockState::Live {
                    soft("released-early", "allocation-released-while-weak-exists", &format!("the allocation of destroyed object {o} was released although Weak handles to it exist"));
                }
            } else if state != BlockState::Released {
                soft("not-released", "allocation-of-destroyed-object", &format!("object {o} is destroyed and no Weak handle remains, but its allocation has not been released"));
            }
        }
    }
    let olds: Vec<OldAlloc> = m(|m| m.old_allocs.clone());
    for oa in &olds {
        let state = alloc::block_state_gen(oa.addr, oa.gen);
        let pinned = m(|m| m.nweak(oa.obj, oa.epoch)) > 0;
        if pinned {
            all_dead = false;
            expected_rcbox_live += 1;
            if state != BlockState::Live {
                soft("released-early", "given-up-allocation-released-while-weak-exists", &format!("the former allocation of object {} was released although Weak handles to it exist", oa.obj));
            }
        } else if state != BlockState::Released {
            soft("not-released", "given-up-allocation", &format!("the allocation given up by try_unwrap/make_mut on object {} has not been released although no Weak handle remains", oa.obj));
        }
    }
    let live = alloc::live_blocks();
    // (b) bookkeeping of live objects: bounded, not predicted (an implementation may
    // keep more than one block per object); the exact statement is (c) below.
    let tables_allowed = tables_allowed * 4;
    if live > expected_rcbox_live + tables_allowed {
        soft(
            "leak",
            "bookkeeping-or-temporary-left",
            &format!("{live} library blocks are live after the call, but only {expected_rcbox_live} object allocations and at most {tables_allowed} bookkeeping blocks (4 per live object that ever had a record) can be accounted for"),
        );
    }
    if all_dead && m(|m| m.pw.is_empty()) {
        st(St::p_quiescent, 1);
        if live != 0 || alloc::live_bytes() != 0 {
            soft("leak", "heap-not-returned", &format!("every object is destroyed and every Weak dropped, but {live} library blocks ({} bytes) are still allocated", alloc::live_bytes()));
        }
    }
}
