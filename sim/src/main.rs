#![feature(get_mut_unchecked)]
//! cactus-sim: deterministic simulation of cactusref with fault injection.
//!
//!   cactus-sim batch  --profile C01 --seed S --from A --to B [--thorough] [--digests] [--distinct-out F]
//!   cactus-sim replay --profile C01 --layouts L[,L2..] --faults "<plan>" --ops "<calls>"
//!   cactus-sim diffstd|scale|abort ...   (see the respective modules)

mod alloc;
mod diffstd;
mod exec;
mod gen;
mod model;
mod ops;
mod orderpair;
mod profiles;
mod rawpayload;
mod report;
mod scale;
mod shared;
mod typed;

use alloc::raw_write;
use exec::DtorSnap;
use gen::{mix, GenState, Knobs, Rng};
use ops::{json_escape, ops_text, Faults, Id, Op};
use profiles::Mode;
use shared::{fnv, fnv_bytes, sh, st, st_max, St, NSTATS, STAT_NAMES};
use std::cell::RefCell;
use std::sync::atomic::Ordering::Relaxed;

// under the interpreter its own allocator is used: it honours exactly the requested
// alignment (malloc would round every box up to 8 or 16) and randomises addresses
#[cfg_attr(not(miri), global_allocator)]
static A: alloc::SimAlloc = alloc::SimAlloc;

extern "C" {
    fn fork() -> i32;
    fn waitpid(pid: i32, status: *mut i32, options: i32) -> i32;
    fn kill(pid: i32, sig: i32) -> i32;
}

thread_local! {
    static PANIC_LOC: RefCell<String> = RefCell::new(String::new());
}

/// The log backend seam. cactusref logs through the `log` facade, whose macros
/// evaluate their arguments only when a logger accepts the level: whether a logger is
/// installed is a configuration the library's memory behaviour can depend on. This
/// backend formats every record into a counting sink (no allocation) so that the
/// arguments are really evaluated; the maximum level is a per-run knob.
struct SinkLogger;
struct Sink(u64);
impl std::fmt::Write for Sink {
    fn write_str(&mut self, s: &str) -> std::fmt::Result {
        self.0 = self.0.wrapping_add(s.len() as u64);
        Ok(())
    }
}
impl log::Log for SinkLogger {
    fn enabled(&self, _: &log::Metadata<'_>) -> bool {
        true
    }
    fn log(&self, record: &log::Record<'_>) {
        use std::fmt::Write;
        let mut s = Sink(0);
        let _ = write!(s, "{}", record.args());
        LOGGED.fetch_add(1, Relaxed);
        // an ACTIVE backend is user code that runs in the middle of library calls: while
        // handling a record it forgets (drops) a Weak the program holds to a dead object
        if LOG_TRACE.load(Relaxed) == 2 {
            exec::log_backend_hook();
        }
    }
    fn flush(&self) {}
}
static LOGGER: SinkLogger = SinkLogger;
static LOGGED: std::sync::atomic::AtomicU64 = std::sync::atomic::AtomicU64::new(0);

fn set_log_level(trace: bool) {
    static ONCE: std::sync::atomic::AtomicBool = std::sync::atomic::AtomicBool::new(false);
    if !ONCE.swap(true, Relaxed) {
        let _ = log::set_logger(&LOGGER);
    }
    log::set_max_level(if trace { log::LevelFilter::Trace } else { log::LevelFilter::Off });
}

pub fn last_panic_location() -> String {
    alloc::har(|| PANIC_LOC.with(|l| l.borrow().clone()))
}

fn out(s: &str) {
    raw_write(1, s.as_bytes());
}

struct Args(Vec<String>);
impl Args {
    fn get(&self, k: &str) -> Option<&str> {
        self.0.iter().position(|a| a == k).and_then(|i| self.0.get(i + 1)).map(|s| s.as_str())
    }
    fn has(&self, k: &str) -> bool {
        self.0.iter().any(|a| a == k)
    }
    fn num(&self, k: &str, d: u64) -> u64 {
        self.get(k).map_or(d, |v| v.parse().unwrap_or_else(|_| die(&format!("bad number for {k}: {v}"))))
    }
}

fn die(msg: &str) -> ! {
    raw_write(2, format!("HARNESS-ERROR {msg}\n").as_bytes());
    unsafe { alloc::_exit(alloc::EXIT_HARNESS) }
}

pub enum Source<'a> {
    Generate { kn: &'a Knobs, hist_seed: u64 },
    Explicit(&'a [Op]),
}

pub struct ExecOpts {
    pub dtor_downgrade_p: u32,
    pub want_snaps: bool,
    pub record_dtors: bool,
    pub layout_noise: bool,
    pub c16_markers: bool,
}

pub struct ExecOut {
    pub ops: Vec<Op>,
    /// every stored handle was a recorded adoption after every call (C09's precondition)
    pub fully_recorded: bool,
    /// number of invocations of the payload's Clone impl
    pub clones: u32,
    /// destructor-side calls that the payload issued on its own (position, call)
    pub inline: Vec<(u32, Vec<Op>)>,
    pub dtors: Vec<DtorSnap>,
    pub call_digests: Vec<u64>,
    pub order_digest: u64,
    pub digest: u64,
    pub fired_panics: u32,
    pub fired_scripts: u32,
    pub delta: [u64; NSTATS],
}

/// 0 = no backend accepts anything, 1 = passive Trace-level backend, 2 = active Trace-level backend
static LOG_TRACE: std::sync::atomic::AtomicU32 = std::sync::atomic::AtomicU32::new(0);
static REUSE: std::sync::atomic::AtomicBool = std::sync::atomic::AtomicBool::new(false);
/// behaviour of the payload's Clone impl: bit 0 = the copy does not get the stored handles,
/// bit 1 = the impl releases every other program handle to the object being cloned
static SHALLOW: std::sync::atomic::AtomicU32 = std::sync::atomic::AtomicU32::new(0);

fn ctx_head(profile: &str, seed: u64, run: u64, exec_i: u64, layouts: &[u64], faults: &Faults) -> String {
    let l: Vec<String> = layouts.iter().map(|x| x.to_string()).collect();
    let lt = LOG_TRACE.load(Relaxed);
    let ru = REUSE.load(Relaxed) as u8;
    let sc = SHALLOW.load(Relaxed);
    let build = if cfg!(debug_assertions) { "checked" } else if cfg!(feature = "std") { "relnd" } else { "relnd-nostd" };
    format!(
        "{{\"type\":\"violation\",\"profile\":\"{profile}\",\"seed\":{seed},\"run\":{run},\"exec\":{exec_i},\"build\":\"{build}\",\"log_trace\":{lt},\"addr_reuse\":{ru},\"shallow_clone\":{sc},\"layouts\":[{}],\"faults\":\"{}\",\"ops\":\"",
        l.join(","),
        json_escape(&faults.text())
    )
}

/// One execution: one history, one fault plan, one layout.
pub fn execute(head: &str, src: Source<'_>, faults: &Faults, layout_seed: u64, o: &ExecOpts) -> ExecOut {
    let before = sh().stats;
    alloc::reset(layout_seed, true);
    exec::reset(faults.clone(), o.want_snaps, o.record_dtors, o.c16_markers, if matches!(src, Source::Generate { .. }) { o.dtor_downgrade_p } else { 0 }, layout_seed ^ 0x64746f72, SHALLOW.load(Relaxed));
    report::ctx_begin(head);
    sh().heartbeat += 1;
    st(St::execs, 1);
    st(St::f_layout_runs, 1);
    let mut issued: Vec<Op> = vec![];
    let mut noise_rng = Rng(layout_seed ^ 0x6e6f697365);
    let mut step = 0u32;
    let mut run_op = |op: &Op, issued: &mut Vec<Op>| {
        report::STEP.store(step, Relaxed);
        sh().heartbeat += 1;
        report::ctx_push_op(&op.text(), step == 0);
        step += 1;
        if o.layout_noise {
            let k = noise_rng.below(6);
            if k > 0 {
                alloc::noise(k);
                st(St::f_noise_alloc, k as u64);
            }
        }
        exec::top_level(op);
        issued.push(op.clone());
        st(St::steps, 1);
    };
    match src {
        Source::Explicit(ops) => {
            for op in ops {
                run_op(op, &mut issued);
            }
        }
        Source::Generate { kn, hist_seed } => {
            let mut rng = Rng(hist_seed);
            let mut rng2 = Rng(mix(hist_seed, 0x7570, 1));
            let mut g = GenState::default();
            if kn.shape != 0 {
                for op in gen::structured(&mut rng, kn, &mut g) {
                    for op in gen::two_phase(op, kn, &mut rng2) {
                        run_op(&op, &mut issued);
                    }
                }
            }
            for _ in 0..kn.walk_len {
                match gen::next_op(&mut rng, kn, &mut g) {
                    Some(op) => {
                        for op in gen::two_phase(op, kn, &mut rng2) {
                            run_op(&op, &mut issued);
                        }
                    }
                    None => break,
                }
            }
            if kn.drain {
                // leave `keep` handles for the very end so that "which outside
                // handle dies last" varies, then release those too
                let mut guard = 0;
                while let Some(op) = gen::next_drain(&mut rng, kn, &mut g) {
                    run_op(&op, &mut issued);
                    guard += 1;
                    if guard > 400 {
                        break;
                    }
                }
            }
        }
    }
    // probes from the library's own counters
    let c = cactusref::verif::counters();
    st(St::p_trace_calls, c[0] as u64);
    st(St::p_trace_pops, c[1] as u64);
    st(St::p_trace_visits, c[2] as u64);
    st(St::p_trace_scanned, c[3] as u64);
    st(St::p_path_plain, c[4] as u64);
    st(St::p_path_zero_links, c[5] as u64);
    st(St::p_path_cycle, c[6] as u64);
    st(St::p_cycle_members, c[7] as u64);
    st(St::p_cycle_survivors, c[8] as u64);
    st_max(St::p_pages_used_max, alloc::pages_used() as u64);
    st(St::p_blocks_reused, alloc::reused_blocks() as u64);
    st(St::p_quarantine_given_back_runs, alloc::quarantine_recycled() as u64);
    st_max(St::p_calls_max, issued.len() as u64);
    let (unreach, p_broken) = exec::m(|m| {
        let ml = m.must_live();
        (m.objs.iter().filter(|(o, ob)| ob.alive && ob.rc && !ml.contains(o)).count(), !m.p_ok)
    });
    if unreach > 0 {
        st(St::p_unreachable_garbage_left, 1);
    }
    if p_broken {
        st(St::p_p_broken, 1);
    }
    let (dtors, call_digests, order_digest, fired_panics, fired_scripts, inline) =
        exec::x(|x| (std::mem::take(&mut x.dtors), std::mem::take(&mut x.call_digests), x.order_digest, x.fired_panics, x.fired_scripts, std::mem::take(&mut x.inline_record)));
    let mut digest = fnv(alloc::layout_digest(), order_digest);
    for &d in &call_digests {
        digest = fnv(digest, d);
    }
    let after = sh().stats;
    let mut delta = [0u64; NSTATS];
    for i in 0..NSTATS {
        delta[i] = after[i].wrapping_sub(before[i]);
    }
    ExecOut { ops: issued, fully_recorded: !exec::x(|x| x.not_fully_recorded), clones: exec::x(|x| x.clone_counter), inline, dtors, call_digests, order_digest, digest, fired_panics, fired_scripts, delta }
}

fn note_case(profile: &str, out: &ExecOut, faults: &Faults, extra: u64) {
    if profiles::nontrivial(profile, &out.delta) {
        st(St::nontrivial, 1);
        let mut h = fnv_bytes(0xcbf29ce484222325, ops_text(&out.ops).as_bytes());
        h = fnv_bytes(h, faults.text().as_bytes());
        h = fnv(h, extra);
        shared::distinct_insert(h);
        if sh().sample_len == 0 || sh().stats[St::nontrivial as usize] % 997 == 1 {
            let s = format!("{{\"ops\":\"{}\",\"faults\":\"{}\"}}", json_escape(&ops_text(&out.ops)), json_escape(&faults.text()));
            shared::set_sample(&s);
        }
    }
    // second measure: distinct teardown interleavings (member destruction orders)
    if out.delta[St::p_path_cycle as usize] > 0 {
        shared::distinct2_insert(fnv(fnv_bytes(0x1234, ops_text(&out.ops).as_bytes()), out.order_digest));
    }
}

fn script_candidates(snap: &DtorSnap, rng: &mut Rng, fresh: &mut Id) -> Vec<Vec<Op>> {
    let mut c: Vec<Vec<Op>> = vec![];
    let mut id = |fresh: &mut Id| {
        *fresh += 1;
        *fresh
    };
    c.push(vec![Op::New { o: id(fresh), h: id(fresh) }]);
    for &(h, _) in &snap.handles {
        c.push(vec![Op::Clone { h, d: id(fresh) }]);
        c.push(vec![Op::Drop { h }]);
        c.push(vec![Op::Downgrade { h, w: id(fresh) }]);
        let d = id(fresh);
        c.push(vec![Op::Clone { h, d }, Op::Drop { h: d }]);
    }
    for &(h, _) in &snap.handles {
        for &(owner, _) in &snap.handles {
            if h != owner {
                // store a fresh clone (the original stays with the program)
                let d = id(fresh);
                c.push(vec![Op::Clone { h, d }, Op::Store { h: d, owner, adopt: true }]);
                c.push(vec![Op::Unadopt { owner, target: h }]);
                c.push(vec![Op::Adopt { owner, target: h }]);
            }
        }
    }
    for &(owner, slot, _) in &snap.takeable {
        c.push(vec![Op::Take { owner, slot, unadopt: true }]);
        c.push(vec![Op::Take { owner, slot, unadopt: true }, Op::Drop { h: slot }]);
    }
    for &(w, _) in &snap.weaks {
        c.push(vec![Op::Upgrade { w, d: id(fresh) }]);
        c.push(vec![Op::WeakDrop { w }]);
        c.push(vec![Op::WeakClone { w, d: id(fresh) }]);
    }
    for i in 0..snap.own_slots.len() {
        c.push(vec![Op::SelfDropSlot { idx: i as Id }]);
        c.push(vec![Op::SelfDowngradeSlot { idx: i as Id, w: id(fresh) }]);
        c.push(vec![Op::SelfGetMutSlot { idx: i as Id }]);
        // ... also with Weak handles to that peer outstanding (taken from the same stored handle)
        c.push(vec![Op::SelfDowngradeSlot { idx: i as Id, w: id(fresh) }, Op::SelfDowngradeSlot { idx: i as Id, w: id(fresh) }, Op::SelfGetMutSlot { idx: i as Id }]);
    }
    // drop every program handle: the strongest "last handle of another group" case
    if snap.handles.len() > 1 {
        c.push(snap.handles.iter().map(|&(h, _)| Op::Drop { h }).collect());
    }
    // shuffle so that a cap samples uniformly
    for i in (1..c.len()).rev() {
        c.swap(i, rng.below(i + 1));
    }
    c
}

struct RunCfg<'a> {
    profile: &'a profiles::Profile,
    seed: u64,
    thorough: bool,
    digests: bool,
}

fn do_run(rc: &RunCfg<'_>, run: u64) {
    let p = rc.profile;
    let mut cfg_rng = Rng(mix(rc.seed, run, 3));
    let kn = profiles::knobs(p.name, rc.thorough, &mut cfg_rng);
    let hist_seed = mix(rc.seed, run, 0);
    let layout_seed = mix(rc.seed, run, 1);
    let mut fault_rng = Rng(mix(rc.seed, run, 2));
    let none = Faults::default();
    let mut opts = ExecOpts { dtor_downgrade_p: kn.dtor_downgrade_p, want_snaps: p.want_snaps, record_dtors: false, layout_noise: false, c16_markers: false };
    st(St::runs, 1);
    // log backend: in one run out of eight a Trace-level logger evaluates every record
    // allocator: in one run out of six freed addresses are reused (LIFO per size class)
    let reuse = Rng(mix(rc.seed, run, 10)).chance(1, 6);
    REUSE.store(reuse, Relaxed);
    alloc::set_reuse(reuse);
    if reuse {
        st(St::f_addr_reuse_runs, 1);
    }
    // payload: in half of the runs its Clone impl yields a copy without the stored handles
    SHALLOW.store(u32::from(Rng(mix(rc.seed, run, 11)).chance(1, 2)) | (u32::from(Rng(mix(rc.seed, run, 14)).chance(1, 4)) << 1), Relaxed);
    let trace = Rng(mix(rc.seed, run, 9)).chance(1, 8);
    // (not in the layout comparison: which dead Weak the backend finds first depends on the
    // order in which a group's members were destroyed, which legitimately varies with the
    // layout - the program would no longer behave the same under every layout)
    let active = trace && Rng(mix(rc.seed, run, 15)).chance(1, 2) && p.mode != Mode::Layouts;
    LOG_TRACE.store(u32::from(trace) + u32::from(active), Relaxed);
    set_log_level(trace);
    if trace {
        st(St::f_log_trace_runs, 1);
    }
    let mut run_digest;
    match p.mode {
        Mode::Plain if p.name == "C08" && cfg_rng.chance(1, 4) => {
            // order independence of the bookkeeping: two routes to the same ledger
            let mut rng = Rng(mix(rc.seed, run, 7));
            let pair = orderpair::generate(&mut rng, rc.thorough);
            run_digest = order_pair(p.name, rc.seed, run, &pair.a, &pair.b, pair.tail, layout_seed, &opts);
        }
        Mode::Plain if matches!(p.name, "C01" | "C03" | "C04" | "C06" | "C08" | "C12") && Rng(mix(rc.seed, run, 12)).chance(1, 16) => {
            // the payload type is a compile-time axis: a payload without drop glue that
            // owns its handles as raw pointers, in small fully recorded adoption graphs
            let mut rng = Rng(hist_seed);
            let case = rawpayload::generate(&mut rng);
            run_digest = raw_one(p.name, rc.seed, run, &case, layout_seed);
        }
        Mode::Plain => {
            let head = ctx_head(p.name, rc.seed, run, 0, &[layout_seed], &none);
            let o = execute(&head, Source::Generate { kn: &kn, hist_seed }, &none, layout_seed, &opts);
            note_case(p.name, &o, &none, 0);
            run_digest = o.digest;
        }
        Mode::Layouts => {
            let k = if rc.thorough { 32 } else { 8 };
            let head = ctx_head(p.name, rc.seed, run, 0, &[layout_seed], &none);
            let base = execute(&head, Source::Generate { kn: &kn, hist_seed }, &none, layout_seed, &opts);
            note_case(p.name, &base, &none, 0);
            run_digest = base.digest;
            let mut orders = std::collections::BTreeSet::new();
            orders.insert(base.order_digest);
            for i in 1..k {
                let l2 = mix(rc.seed, run, 100 + i);
                opts.layout_noise = i % 2 == 1;
                let fi = Faults { inline: base.inline.clone(), ..Faults::default() };
                let head = ctx_head(p.name, rc.seed, run, i, &[layout_seed, l2], &fi);
                let o = execute(&head, Source::Explicit(&base.ops), &fi, l2, &opts);
                st(St::p_layout_compared, 1);
                orders.insert(o.order_digest);
                if !(base.fully_recorded && o.fully_recorded) {
                    // outside the property's precondition: nothing to compare
                    st(St::p_layout_skipped_not_fully_recorded, 1);
                    continue;
                }
                if o.call_digests != base.call_digests {
                    let at = o.call_digests.iter().zip(base.call_digests.iter()).position(|(a, b)| a != b).unwrap_or(o.call_digests.len().min(base.call_digests.len()));
                    report::STEP.store(at as u32, Relaxed);
                    report::violation(
                        "layout-dependence",
                        "destroyed-set-or-counts-differ",
                        &format!("the same call sequence destroyed a different set of objects, or left different counts, at call {at} under heap layout {l2} than under layout {layout_seed}"),
                    );
                }
                run_digest = fnv(run_digest, o.digest);
                note_case(p.name, &o, &none, l2);
            }
            if orders.len() > 1 {
                st(St::p_layout_orders_differ, 1);
            }
        }
        Mode::DiffStd => {
            report::F_DIFFSTD.store(true, Relaxed);
            let mut rng = Rng(hist_seed);
            if cfg_rng.chance(1, 4) {
                let (ty, prog) = typed::generate(&mut rng);
                run_digest = typed_one(p.name, rc.seed, run, ty, &prog, layout_seed);
            } else {
                let prog = diffstd::generate(&mut rng, rc.thorough);
                run_digest = diff_one(p.name, rc.seed, run, &prog, layout_seed);
            }
        }
        Mode::AbortEnum => {
            // the fault-free base execution is judged like any other history; only the
            // clone/drop scenarios belong to C16
            report::F_C16.store(false, Relaxed);
            opts.record_dtors = true;
            let head = ctx_head(p.name, rc.seed, run, 0, &[layout_seed], &none);
            let base = execute(&head, Source::Generate { kn: &kn, hist_seed }, &none, layout_seed, &opts);
            run_digest = base.digest;
            opts.record_dtors = false;
            let mut exec_i = 1u64;
            let cap = if rc.thorough { 64 } else { 24 };
            let mut scen: Vec<Faults> = vec![];
            for (k, d) in base.dtors.iter().enumerate() {
                for j in 0..d.own_slots.len() {
                    scen.push(Faults { panic_at: vec![], scripts: vec![(k as u32, vec![Op::SelfCloneSlot { idx: j as Id, d: 900_001 }])], inline: base.inline.clone(), ..Faults::default() });
                    scen.push(Faults { panic_at: vec![], scripts: vec![(k as u32, vec![Op::SelfDropSlot { idx: j as Id }])], inline: base.inline.clone(), ..Faults::default() });
                }
            }
            for i in (1..scen.len()).rev() {
                scen.swap(i, fault_rng.below(i + 1));
            }
            for f in scen.into_iter().take(cap) {
                let head = ctx_head(p.name, rc.seed, run, exec_i, &[layout_seed], &f);
                exec_i += 1;
                c16_scenario(p.name, &head, &base.ops, &f, layout_seed, &opts, true);
            }
        }
        Mode::EnumPanic => {
            opts.record_dtors = true;
            let head = ctx_head(p.name, rc.seed, run, 0, &[layout_seed], &none);
            let base = execute(&head, Source::Generate { kn: &kn, hist_seed }, &none, layout_seed, &opts);
            run_digest = base.digest;
            opts.record_dtors = false;
            let n = base.dtors.len() as u32;
            for k in 0..n {
                let f = Faults { panic_at: vec![k], scripts: vec![], inline: base.inline.clone(), ..Faults::default() };
                let head = ctx_head(p.name, rc.seed, run, 1 + k as u64, &[layout_seed], &f);
                let o = execute(&head, Source::Explicit(&base.ops), &f, layout_seed, &opts);
                if o.fired_panics > 0 && o.delta[St::steps as usize] > 0 {
                    st(St::p_panic_after_continue, 1);
                }
                note_case(p.name, &o, &f, 0);
                run_digest = fnv(run_digest, o.digest);
            }
            // ... the same positions with the panic at the START of the destructor (what
            // the value owns is then released during the unwind)
            for k in 0..n {
                let f = Faults { panic_early_at: vec![k], inline: base.inline.clone(), ..Faults::default() };
                let head = ctx_head(p.name, rc.seed, run, 500 + k as u64, &[layout_seed], &f);
                let o = execute(&head, Source::Explicit(&base.ops), &f, layout_seed, &opts);
                note_case(p.name, &o, &f, 0);
                run_digest = fnv(run_digest, o.digest);
            }
            // ... the same, with the panic payload carrying the value's stored strong handles
            // out of the teardown (dropped by the program once the call has unwound)
            for k in 0..n {
                if base.dtors[k as usize].own_slots.is_empty() {
                    continue;
                }
                let f = Faults { panic_carry_at: vec![k], inline: base.inline.clone(), ..Faults::default() };
                let head = ctx_head(p.name, rc.seed, run, 2000 + k as u64, &[layout_seed], &f);
                let o = execute(&head, Source::Explicit(&base.ops), &f, layout_seed, &opts);
                note_case(p.name, &o, &f, 0);
                run_digest = fnv(run_digest, o.digest);
            }
            // ... two panics in one history: an end-of-destructor panic at k, a start-of-
            // destructor panic at a later position
            if n >= 2 {
                let mut prng = Rng(mix(rc.seed, run, 13));
                for _ in 0..(n.min(4)) {
                    let k = prng.below(n as usize - 1) as u32;
                    let j = k + 1 + prng.below((n - k - 1) as usize) as u32;
                    let f = Faults { panic_at: vec![k], panic_early_at: vec![j], inline: base.inline.clone(), ..Faults::default() };
                    let head = ctx_head(p.name, rc.seed, run, 3000 + (k * 64 + j) as u64, &[layout_seed], &f);
                    let o = execute(&head, Source::Explicit(&base.ops), &f, layout_seed, &opts);
                    note_case(p.name, &o, &f, 0);
                    run_digest = fnv(run_digest, o.digest);
                }
            }
            // ... and a panic in every invocation of the value's Clone impl (make_mut)
            for c in 0..base.clones {
                let f = Faults { clone_panic_at: vec![c], inline: base.inline.clone(), ..Faults::default() };
                let head = ctx_head(p.name, rc.seed, run, 1000 + c as u64, &[layout_seed], &f);
                let o = execute(&head, Source::Explicit(&base.ops), &f, layout_seed, &opts);
                note_case(p.name, &o, &f, 0);
                run_digest = fnv(run_digest, o.digest);
            }
        }
        Mode::EnumScript => {
            opts.record_dtors = true;
            let head = ctx_head(p.name, rc.seed, run, 0, &[layout_seed], &none);
            let base = execute(&head, Source::Generate { kn: &kn, hist_seed }, &none, layout_seed, &opts);
            run_digest = base.digest;
            opts.record_dtors = false;
            let cap = if rc.thorough { 400 } else { 60 };
            let n = base.dtors.len();
            let mut fresh: Id = 900_000;
            let mut exec_i = 1u64;
            let per_pos = if n == 0 { 0 } else { (cap / n).max(4) };
            for k in 0..n {
                let cands = script_candidates(&base.dtors[k], &mut fault_rng, &mut fresh);
                for sc in cands.into_iter().take(per_pos) {
                    let f = Faults { panic_at: vec![], scripts: vec![(k as u32, sc)], inline: base.inline.clone(), ..Faults::default() };
                    let head = ctx_head(p.name, rc.seed, run, exec_i, &[layout_seed], &f);
                    exec_i += 1;
                    let o = execute(&head, Source::Explicit(&base.ops), &f, layout_seed, &opts);
                    note_case(p.name, &o, &f, 0);
                    run_digest = fnv(run_digest, o.digest);
                }
            }
            // combinations: scripts at two destructor positions of the same history, and
            // longer scripts (three to four actions) at one position
            let combos = if n == 0 { 0 } else if rc.thorough { 40 } else { 8 };
            for _ in 0..combos {
                let k1 = fault_rng.below(n);
                let c1 = script_candidates(&base.dtors[k1], &mut fault_rng, &mut fresh);
                let mut scripts: Vec<(u32, Vec<Op>)> = vec![];
                let mut s1: Vec<Op> = c1.first().cloned().unwrap_or_default();
                if fault_rng.chance(1, 2) {
                    if let Some(more) = c1.get(1) {
                        s1.extend(more.iter().cloned());
                    }
                    if let Some(more) = c1.get(2) {
                        s1.extend(more.iter().cloned());
                    }
                }
                scripts.push((k1 as u32, s1));
                if n > 1 && fault_rng.chance(2, 3) {
                    let mut k2 = fault_rng.below(n);
                    if k2 == k1 {
                        k2 = (k1 + 1) % n;
                    }
                    let c2 = script_candidates(&base.dtors[k2], &mut fault_rng, &mut fresh);
                    if let Some(s2) = c2.first() {
                        scripts.push((k2 as u32, s2.clone()));
                    }
                }
                let f = Faults { panic_at: vec![], scripts, inline: base.inline.clone(), ..Faults::default() };
                let head = ctx_head(p.name, rc.seed, run, exec_i, &[layout_seed], &f);
                exec_i += 1;
                let o = execute(&head, Source::Explicit(&base.ops), &f, layout_seed, &opts);
                st(St::f_script_combos, 1);
                note_case(p.name, &o, &f, 0);
                run_digest = fnv(run_digest, o.digest);
            }
        }
    }
    if rc.digests {
        out(&format!("{{\"type\":\"digest\",\"run\":{run},\"d\":\"{run_digest:016x}\"}}\n"));
    }
}

/// Wait for a child with a watchdog measured in the child's own CPU time (robust
/// against a loaded machine): if it consumes `hang_ms` of CPU without moving the
/// heartbeat in the shared region, the call it is in is not returning; it is killed.
fn wait_watch(pid: i32, hang_ms: u64) -> (i32, bool) {
    let cpu_ms = |pid: i32| -> u64 {
        std::fs::read_to_string(format!("/proc/{pid}/stat"))
            .ok()
            .and_then(|t| {
                let rest = t.rsplit_once(')')?.1.to_string();
                let f: Vec<&str> = rest.split_whitespace().collect();
                // after the command: state is f[0]; utime and stime are f[11], f[12] (ticks of 10 ms)
                Some((f.get(11)?.parse::<u64>().ok()? + f.get(12)?.parse::<u64>().ok()?) * 10)
            })
            .unwrap_or(0)
    };
    let mut status = 0i32;
    let (mut last_beat, mut cpu_at_beat) = (sh().heartbeat, cpu_ms(pid));
    loop {
        let r = unsafe { waitpid(pid, &mut status, 1) };
        if r == pid {
            return (status, false);
        }
        std::thread::sleep(std::time::Duration::from_millis(if cfg!(miri) { 1 } else { 2 }));
        let b = sh().heartbeat;
        let c = cpu_ms(pid);
        if b != last_beat {
            last_beat = b;
            cpu_at_beat = c;
        } else if c.saturating_sub(cpu_at_beat) > hang_ms {
            unsafe { kill(pid, 9) };
            unsafe { waitpid(pid, &mut status, 0) };
            return (status, true);
        }
    }
}

/// C08 order independence: execute both routes, compare what the common release
/// sequence destroyed and left behind.
fn order_pair(pname: &str, seed: u64, run: u64, a: &[Op], b: &[Op], tail: usize, layout_seed: u64, opts: &ExecOpts) -> u64 {
    // two routes are compared call by call: the program must behave the same on both, so
    // the log backend stays passive here (as in the layout comparison)
    if LOG_TRACE.load(Relaxed) == 2 {
        LOG_TRACE.store(1, Relaxed);
    }
    let none = Faults::default();
    let head = ctx_head(pname, seed, run, 0, &[layout_seed], &none);
    let oa = execute(&head, Source::Explicit(a), &none, layout_seed, opts);
    note_case(pname, &oa, &none, 1);
    let head_b = format!(
        "{{\"type\":\"violation\",\"profile\":\"{pname}\",\"seed\":{seed},\"run\":{run},\"exec\":1,\"layouts\":[{layout_seed}],\"faults\":\"\",\"tail\":{tail},\"ops_a\":\"{}\",\"ops\":\"",
        json_escape(&ops_text(a))
    );
    let ob = execute(&head_b, Source::Explicit(b), &none, layout_seed, opts);
    note_case(pname, &ob, &none, 2);
    st(St::p_order_pairs, 1);
    let (la, lb) = (oa.call_digests.len(), ob.call_digests.len());
    if la < tail || lb < tail {
        report::harness_error("order pair: fewer executed calls than the common tail");
    }
    if oa.call_digests[la - tail..] != ob.call_digests[lb - tail..] {
        let at = (0..tail).find(|&i| oa.call_digests[la - tail + i] != ob.call_digests[lb - tail + i]).unwrap_or(0);
        report::STEP.store((b.len() - tail + at) as u32, Relaxed);
        report::violation(
            "order-dependence",
            "same-ledger-different-collection",
            &format!("two call sequences that record the same adoptions and store the same handles, in different orders, were followed by the same {tail} releases; release #{at} destroyed a different set of objects or left different counts"),
        );
    }
    fnv(oa.digest, ob.digest)
}

/// C16: one scenario in a grandchild whose abort-like signals have their default
/// disposition. Returns true if the scenario behaved as the property requires.
fn c16_scenario(pname: &str, head: &str, ops: &[Op], f: &Faults, layout_seed: u64, opts: &ExecOpts, count: bool) -> bool {
    let is_clone = matches!(f.scripts.first().and_then(|s| s.1.first()), Some(Op::SelfCloneSlot { .. }));
    {
        let s = sh();
        s.c16_state = 0;
        s.c16_flags = 0;
        s.printed = 0;
    }
    report::F_C16.store(true, Relaxed);
    struct Unflag;
    impl Drop for Unflag {
        fn drop(&mut self) {
            report::F_C16.store(false, Relaxed);
        }
    }
    let _unflag = Unflag;
    // render the context before forking so that the parent can report for the child
    report::ctx_begin(head);
    let before = sh().stats;
    let pid = unsafe { fork() };
    if pid < 0 {
        die("fork failed");
    }
    if pid == 0 {
        alloc::default_abort_signals();
        let o2 = ExecOpts { dtor_downgrade_p: 0, want_snaps: opts.want_snaps, record_dtors: false, layout_noise: false, c16_markers: true };
        let o = execute(head, Source::Explicit(ops), f, layout_seed, &o2);
        note_case(pname, &o, f, 0);
        unsafe { alloc::_exit(0) };
    }
    let (status, hung) = wait_watch(pid, 6_000);
    if hung {
        sh().printed = 0;
        report::emit_raw("hang", "call-did-not-return", "a call into the library did not return within the watchdog period", 0);
        return false;
    }
    let exited = status & 0x7f == 0;
    let code = (status >> 8) & 0xff;
    let sig = status & 0x7f;
    let (state, flags) = (sh().c16_state, sh().c16_flags);
    let (alive, doomed, must) = (flags & 1 != 0, flags & 2 != 0, flags & 4 != 0);
    if count {
        st(St::c16_scenarios, 1);
    }
    if sh().printed != 0 {
        // the grandchild reported a violation itself
        return false;
    }
    if exited && code == alloc::EXIT_HARNESS {
        unsafe { alloc::_exit(alloc::EXIT_HARNESS) };
    }
    let fail = |kind: &str, cause: &str, msg: &str| -> bool {
        report::emit_raw(kind, cause, msg, 0);
        false
    };
    if !is_clone {
        if exited && code == 0 {
            if count {
                st(St::c16_drop_ok, 1);
            }
            return true;
        }
        // roll the statistics of the dead grandchild back? they are harmless
        let _ = before;
        return fail("dead-drop-crashed", "drop-of-peer-handle-in-destructor", &format!("dropping a stored handle early inside a destructor ended the process (exited={exited} code={code} signal={sig})"));
    }
    match state {
        0 => {
            if exited && code == 0 {
                if count {
                    st(St::c16_noop, 1);
                }
                true
            } else {
                fail("crash", "before-clone-marker", &format!("the scenario died before reaching the clone (exited={exited} code={code} signal={sig})"))
            }
        }
        1 => {
            let aborted = !exited && (sig == 4 || sig == 6 || sig == 5);
            if !aborted {
                return fail("dead-clone-no-abort", "process-did-not-abort", &format!("the clone neither returned nor aborted cleanly (exited={exited} code={code} signal={sig})"));
            }
            if must {
                return fail("abort-on-live-clone", "clone-of-reachable-object-aborted", "cloning a handle to an object that the program can still reach aborted the process");
            }
            if count {
                if !alive {
                    st(St::c16_clone_aborted_dead, 1);
                } else if doomed {
                    st(St::c16_clone_aborted_doomed, 1);
                } else {
                    st(St::c16_clone_unreachable_either, 1);
                }
            }
            true
        }
        _ => {
            // the clone returned; exec has already reported if the target was dead or doomed
            if exited && code == 0 {
                if count {
                    if must {
                        st(St::c16_clone_live_ok, 1);
                    } else {
                        st(St::c16_clone_unreachable_either, 1);
                    }
                }
                true
            } else {
                fail("crash", "after-clone", &format!("the scenario died after a legal clone (exited={exited} code={code} signal={sig})"))
            }
        }
    }
}

/// C07, payload-type variety: one typed program on both families.
fn typed_one(pname: &str, seed: u64, run: u64, ty: u32, prog: &[typed::T], layout_seed: u64) -> u64 {
    alloc::reset(layout_seed, true);
    // (the history world of an earlier execution must not be visible to the log backend hook)
    exec::reset(Faults::default(), false, false, false, 0, 0, 0);
    report::reset_flags();
    let text = typed::prog_text(ty, prog);
    let head = format!("{{\"type\":\"violation\",\"profile\":\"{pname}\",\"seed\":{seed},\"run\":{run},\"exec\":0,\"layouts\":[{layout_seed}],\"faults\":\"\",\"ops\":\"{}", json_escape(&text));
    report::ctx_begin(&head);
    st(St::execs, 1);
    let mut on_step = |i: usize| report::STEP.store(i as u32 + 1, Relaxed);
    let r = std::panic::catch_unwind(std::panic::AssertUnwindSafe(|| typed::run_both(ty, prog, &mut on_step)));
    let (equal, step, c, sd, obs) = match r {
        Ok(o) => o,
        Err(_) => report::violation("internal-panic", "panic-in-differential-run", &format!("a panic escaped while executing the typed program at {}", last_panic_location())),
    };
    st(St::calls, prog.len() as u64 * 2);
    st(St::steps, prog.len() as u64);
    st(St::p_typed_programs, 1);
    if !equal {
        report::STEP.store(step as u32 + 1, Relaxed);
        let cause = prog.get(step).map(|d| d.text().split(' ').next().unwrap_or("").to_string()).unwrap_or_else(|| "end-of-program".to_string());
        report::violation("std-divergence", &format!("typed-{cause}"), &format!("payload type {}: at call {} ({}) cactusref observed [{}] but std::rc observed [{}]", typed::TYPE_NAMES[ty as usize % typed::TYPE_NAMES.len()], step, prog.get(step).map(|d| d.text()).unwrap_or_default(), c, sd));
    }
    let h = fnv_bytes(0xcbf29ce484222325, text.as_bytes());
    if obs >= 4 {
        st(St::nontrivial, 1);
        shared::distinct_insert(h);
    }
    fnv(h, obs as u64)
}

/// C01/C03/C04 on a payload type without drop glue (see rawpayload.rs).
fn raw_one(pname: &str, seed: u64, run: u64, case: &rawpayload::RawCase, layout_seed: u64) -> u64 {
    alloc::reset(layout_seed, true);
    // (the history world of an earlier execution must not be visible to the log backend hook)
    exec::reset(Faults::default(), false, false, false, 0, 0, 0);
    report::reset_flags();
    let text = case.text();
    let head = format!("{{\"type\":\"violation\",\"profile\":\"{pname}\",\"seed\":{seed},\"run\":{run},\"exec\":0,\"layouts\":[{layout_seed}],\"faults\":\"\",\"ops\":\"{}", json_escape(&text));
    report::ctx_begin(&head);
    st(St::execs, 1);
    st(St::p_raw_payload_cases, 1);
    let mut on_step = |i: usize| report::STEP.store(i as u32, Relaxed);
    let r = std::panic::catch_unwind(std::panic::AssertUnwindSafe(|| rawpayload::run(case, &mut on_step)));
    match r {
        Ok(None) => {}
        Ok(Some((kind, cause, msg, step))) => {
            report::STEP.store(step as u32, Relaxed);
            report::violation(kind, cause, &msg)
        }
        Err(_) => report::violation("internal-panic", "panic-in-raw-payload-case", &format!("a panic escaped while executing the case at {}", last_panic_location())),
    }
    st(St::calls, (case.edges.len() * 3 + case.order.len() + case.k * 2) as u64);
    st(St::steps, case.order.len() as u64);
    let h = fnv_bytes(0xcbf29ce484222325, text.as_bytes());
    if !case.edges.is_empty() {
        st(St::nontrivial, 1);
        shared::distinct_insert(h);
    }
    h
}

/// C07: one program on both families.
fn diff_one(pname: &str, seed: u64, run: u64, prog: &[diffstd::D], layout_seed: u64) -> u64 {
    alloc::reset(layout_seed, true);
    // (the history world of an earlier execution must not be visible to the log backend hook)
    exec::reset(Faults::default(), false, false, false, 0, 0, 0);
    report::reset_flags();
    let text = diffstd::prog_text(prog);
    let head = format!("{{\"type\":\"violation\",\"profile\":\"{pname}\",\"seed\":{seed},\"run\":{run},\"exec\":0,\"layouts\":[{layout_seed}],\"faults\":\"\",\"ops\":\"{}", json_escape(&text));
    report::ctx_begin(&head);
    st(St::execs, 1);
    let mut on_step = |i: usize| report::STEP.store(i as u32, Relaxed);
    let r = std::panic::catch_unwind(std::panic::AssertUnwindSafe(|| diffstd::run_both(prog, &mut on_step)));
    let o = match r {
        Ok(o) => o,
        Err(_) => report::violation("internal-panic", "panic-in-differential-run", &format!("a panic escaped while executing the program at {}", last_panic_location())),
    };
    st(St::calls, prog.len() as u64 * 2);
    st(St::steps, prog.len() as u64);
    st(St::p_destroyed, o.destroyed as u64);
    st_max(St::p_calls_max, prog.len() as u64);
    if !o.equal {
        report::STEP.store(o.step as u32, Relaxed);
        let cause = prog.get(o.step).map(|d| d.name()).unwrap_or_else(|| "end-of-program".to_string());
        report::violation("std-divergence", &cause, &format!("at call {} ({}) cactusref observed [{}] but std::rc observed [{}]", o.step, prog.get(o.step).map(|d| d.text()).unwrap_or_default(), o.cactus, o.std));
    }
    let h = fnv_bytes(0xcbf29ce484222325, text.as_bytes());
    if o.destroyed > 0 && o.observations >= 5 {
        st(St::nontrivial, 1);
        shared::distinct_insert(h);
        if sh().sample_len == 0 || sh().stats[St::nontrivial as usize] % 997 == 1 {
            shared::set_sample(&format!("{{\"program\":\"{}\"}}", json_escape(&text)));
        }
    }
    fnv(h, o.observations as u64)
}

fn install_panic_hook() {
    std::panic::set_hook(Box::new(|info| {
        alloc::har(|| {
            let loc = info.location().map(|l| format!("{}:{}", l.file(), l.line())).unwrap_or_default();
            PANIC_LOC.with(|p| *p.borrow_mut() = loc);
        });
    }));
}

fn stats_json(profile: &str, seed: u64, from: u64, to: u64, restarts: u64) -> String {
    let s = sh();
    let mut parts = vec![];
    for (i, name) in STAT_NAMES.iter().enumerate() {
        if s.stats[i] != 0 {
            parts.push(format!("\"{name}\":{}", s.stats[i]));
        }
    }
    let sample = String::from_utf8_lossy(&s.sample[..s.sample_len as usize]).to_string();
    format!(
        "{{\"type\":\"stats\",\"profile\":\"{profile}\",\"seed\":{seed},\"from\":{from},\"to\":{to},\"restarts\":{restarts},\"distinct\":{},\"distinct2\":{},\"sample\":{},\"stats\":{{{}}}}}\n",
        s.distinct_n,
        s.distinct2_n,
        if sample.is_empty() { "null".to_string() } else { sample },
        parts.join(",")
    )
}

fn write_distinct(path: &str) {
    let s = sh();
    let mut bytes: Vec<u8> = Vec::with_capacity(s.distinct_n as usize * 8);
    for &k in s.distinct.iter() {
        if k != 0 {
            bytes.extend_from_slice(&k.to_le_bytes());
        }
    }
    let _ = std::fs::write(path, &bytes);
    let mut bytes: Vec<u8> = Vec::with_capacity(s.distinct2_n as usize * 8);
    for &k in s.distinct2.iter() {
        if k != 0 {
            bytes.extend_from_slice(&k.to_le_bytes());
        }
    }
    let _ = std::fs::write(format!("{path}.orders"), &bytes);
}

fn batch(a: &Args) -> i32 {
    let pname = a.get("--profile").unwrap_or_else(|| die("--profile required"));
    let profile = profiles::profile(pname).unwrap_or_else(|| die("unknown profile"));
    let seed = a.num("--seed", 1);
    let from = a.num("--from", 0);
    let to = a.num("--to", 1000);
    let rc = RunCfg { profile, seed, thorough: a.has("--thorough"), digests: a.has("--digests") };
    report::SOFT_MASK.store(report::soft_mask_for(pname), Relaxed);
    shared::init();
    sh().next_run = from;
    let mut restarts = 0u64;
    let mut hangs = 0u64;
    let mut status_code = 0;
    loop {
        if sh().next_run >= to {
            break;
        }
        let pid = unsafe { fork() };
        if pid < 0 {
            die("fork failed");
        }
        if pid == 0 {
            alloc::init(true);
            alloc::set_fault_reporter(report::on_fault);
            install_panic_hook();
            let start = sh().next_run;
            for run in start..to {
                sh().cur_run = run;
                do_run(&rc, run);
                sh().next_run = run + 1;
            }
            unsafe { alloc::_exit(0) };
        }
        // wait with a watchdog: a library call that never returns (a trace that does not
        // terminate) must not hang the check; it is reported and the batch goes on
        let hang_ms = a.num("--hang-ms", 6_000);
        let (status, hung) = wait_watch(pid, hang_ms);
        if hung {
            hangs += 1;
            sh().printed = 0;
            report::emit_raw("hang", "call-did-not-return", "a call into the library did not return within the watchdog period", 0);
        }
        let exited = status & 0x7f == 0;
        let code = (status >> 8) & 0xff;
        if !hung && exited && code == 0 {
            break;
        }
        if !hung && exited && code == alloc::EXIT_HARNESS {
            status_code = 2;
            break;
        }
        if sh().printed == 0 {
            // the child died without having reported: report for it
            let why = if exited { format!("worker exited with status {code}") } else { format!("worker killed by signal {}", status & 0x7f) };
            report::emit_raw("crash", "worker-died", &why, 0);
        }
        status_code = 1;
        restarts += 1;
        sh().stats[St::p_child_restarts as usize] += 1;
        sh().next_run = sh().cur_run + 1;
        if restarts > a.num("--max-restarts", 1_000_000) || hangs >= 3 {
            // a tree on which calls keep hanging is reported; do not spend the budget waiting
            break;
        }
    }
    if let Some(path) = a.get("--distinct-out") {
        write_distinct(path);
    }
    out(&stats_json(pname, seed, from, to, restarts));
    status_code
}

fn replay(a: &Args) -> i32 {
    let pname = a.get("--profile").unwrap_or_else(|| die("--profile required"));
    let profile = profiles::profile(pname).unwrap_or_else(|| die("unknown profile"));
    if profile.mode == Mode::DiffStd {
        shared::init();
        alloc::init(true);
        alloc::set_fault_reporter(report::on_fault);
        install_panic_hook();
        report::F_DIFFSTD.store(true, Relaxed);
        let l: u64 = a.get("--layouts").unwrap_or("1").split(',').next().unwrap().parse().unwrap_or(1);
        let text = a.get("--ops").unwrap_or("");
        if text.trim_start().starts_with("Type ") {
            let (ty, prog) = typed::parse_prog(text).unwrap_or_else(|e| die(&e));
            let d = typed_one(pname, a.num("--seed", 0), a.num("--run", 0), ty, &prog, l);
            out(&format!("{{\"type\":\"ok\",\"digest\":\"{d:016x}\"}}\n"));
            return 0;
        }
        let prog = diffstd::parse_prog(text).unwrap_or_else(|e| die(&e));
        let d = diff_one(pname, a.num("--seed", 0), a.num("--run", 0), &prog, l);
        out(&format!("{{\"type\":\"ok\",\"digest\":\"{d:016x}\"}}\n"));
        return 0;
    }
    if a.get("--ops").unwrap_or("").trim_start().starts_with("Raw ") {
        report::SOFT_MASK.store(if a.has("--all-oracles") { report::S_ALL } else { report::soft_mask_for(pname) }, Relaxed);
        shared::init();
        alloc::init(true);
        alloc::set_fault_reporter(report::on_fault);
        install_panic_hook();
        REUSE.store(a.has("--addr-reuse"), Relaxed);
        alloc::set_reuse(a.has("--addr-reuse"));
        let l: u64 = a.get("--layouts").unwrap_or("1").split(',').next().unwrap().parse().unwrap_or(1);
        let case = rawpayload::RawCase::parse(a.get("--ops").unwrap_or("")).unwrap_or_else(|e| die(&e));
        let d = raw_one(pname, a.num("--seed", 0), a.num("--run", 0), &case, l);
        out(&format!("{{\"type\":\"ok\",\"digest\":\"{d:016x}\"}}\n"));
        return 0;
    }
    let (ops, inline) = ops::parse_history(a.get("--ops").unwrap_or("")).unwrap_or_else(|e| die(&e));
    let mut faults = Faults::parse(a.get("--faults").unwrap_or("")).unwrap_or_else(|e| die(&e));
    faults.inline = inline;
    report::SOFT_MASK.store(if a.has("--all-oracles") { report::S_ALL } else { report::soft_mask_for(pname) }, Relaxed);
    LOG_TRACE.store(if a.has("--log-trace") { 1 } else { a.num("--log-mode", 0) as u32 }, Relaxed);
    set_log_level(a.has("--log-trace") || a.num("--log-mode", 0) > 0);
    SHALLOW.store(if a.has("--shallow-clone") { 1 } else { a.num("--clone-mode", 0) as u32 }, Relaxed);
    REUSE.store(a.has("--addr-reuse"), Relaxed);
    alloc::set_reuse(a.has("--addr-reuse"));
    let layouts: Vec<u64> = a.get("--layouts").unwrap_or("1").split(',').filter(|s| !s.is_empty()).map(|s| s.parse().unwrap_or_else(|_| die("bad layout"))).collect();
    shared::init();
    alloc::init(true);
    alloc::set_fault_reporter(report::on_fault);
    install_panic_hook();
    let mut opts = ExecOpts { dtor_downgrade_p: 0, want_snaps: profile.want_snaps, record_dtors: false, layout_noise: false, c16_markers: false };
    let seed = a.num("--seed", 0);
    let run = a.num("--run", 0);
    if profile.mode == Mode::AbortEnum && !faults.is_empty() {
        let head = ctx_head(pname, seed, run, 1, &layouts[..1], &faults);
        let ok = c16_scenario(pname, &head, &ops, &faults, layouts[0], &opts, true);
        if ok {
            out("{\"type\":\"ok\"}\n");
            return 0;
        }
        return alloc::EXIT_VIOLATION;
    }
    if let Some(ops_a) = a.get("--ops-a") {
        let oa = ops::parse_ops(ops_a, ';').unwrap_or_else(|e| die(&e));
        let tail = a.num("--tail", 1) as usize;
        order_pair(pname, seed, run, &oa, &ops, tail, layouts[0], &opts);
        out("{\"type\":\"ok\"}\n");
        return 0;
    }
    let mut base: Option<ExecOut> = None;
    for (i, &l) in layouts.iter().enumerate() {
        let ls: Vec<u64> = if i == 0 { vec![l] } else { vec![layouts[0], l] };
        let head = ctx_head(pname, seed, run, i as u64, &ls, &faults);
        opts.layout_noise = a.has("--layout-noise") && i > 0;
        let o = execute(&head, Source::Explicit(&ops), &faults, l, &opts);
        if let Some(b) = &base {
            if b.fully_recorded && o.fully_recorded && o.call_digests != b.call_digests {
                let at = o.call_digests.iter().zip(b.call_digests.iter()).position(|(x, y)| x != y).unwrap_or(0);
                report::STEP.store(at as u32, Relaxed);
                report::violation("layout-dependence", "destroyed-set-or-counts-differ", &format!("the same call sequence behaves differently at call {at} under heap layout {l} than under layout {}", layouts[0]));
            }
        } else {
            base = Some(o);
        }
    }
    let b = base.unwrap();
    out(&format!("{{\"type\":\"ok\",\"digest\":\"{:016x}\",\"dtors\":{},\"calls\":{}}}\n", b.digest, exec::x(|x| x.dtor_counter), b.ops.len()));
    0
}

/// C15 child: one shape, one size, on a thread with a small fixed stack.
fn scale_cmd(a: &Args) -> i32 {
    let shape = a.get("--shape").unwrap_or("ring").to_string();
    let n = a.num("--n", 1000) as usize;
    let chords = a.num("--chords", 0) as usize;
    let selfsame = a.num("--selfsame-every", 0) as usize;
    let stack_kb = a.num("--stack-kb", 128) as usize;
    let seed = a.num("--seed", 1);
    scale::DEAD_ACT.store(match a.get("--dead-act") { Some("clone") => 1, Some("drop") => 2, Some("clonefrom") => 3, _ => 0 }, Relaxed);
    scale::DEAD_AT.store(a.num("--dead-at", 0) as usize, Relaxed);
    scale::GIVE.store(match a.get("--give") { Some("unwrap") => 1, Some("steal") => 2, _ => 0 }, Relaxed);
    shared::init();
    alloc::reset(1, false);
    let shape2 = shape.clone();
    let th = std::thread::Builder::new().stack_size(stack_kb * 1024).spawn(move || alloc::sut(|| scale::run(&shape2, n, chords, selfsame, seed)));
    let o = match th {
        Ok(h) => match h.join() {
            Ok(o) => o,
            Err(_) => {
                out("{\"type\":\"scale\",\"error\":\"panic\"}\n");
                return 1;
            }
        },
        Err(_) => die("cannot spawn thread"),
    };
    out(&format!(
        "{{\"type\":\"scale\",\"shape\":\"{shape}\",\"n\":{},\"edges\":{},\"stack_kb\":{stack_kb},\"destroyed\":{},\"double\":{},\"trace_calls\":{},\"pops\":{},\"visits\":{},\"scanned\":{},\"build_us\":{},\"drop_us\":{},\"count_errors\":{}}}\n",
        o.n, o.edges, o.destroyed, o.double, o.trace_calls, o.pops, o.visits, o.scanned, o.build_us, o.drop_us, o.count_errors
    ));
    0
}

fn after_big_cmd(a: &Args) -> i32 {
    let shape = a.get("--shape").unwrap_or("ring").to_string();
    let n = a.num("--n", 100000) as usize;
    let seed = a.num("--seed", 1);
    shared::init();
    alloc::reset(1, false);
    let th = std::thread::Builder::new().stack_size(256 * 1024).spawn(move || alloc::sut(|| scale::after_big(&shape, n, seed)));
    let (before, after, big) = match th.map(|h| h.join()) {
        Ok(Ok(o)) => o,
        _ => {
            out("{\"type\":\"after-big\",\"error\":\"panic\"}\n");
            return 1;
        }
    };
    // the same question for the history of one object: a former hub (0 = fresh member)
    let hubs: Vec<String> = [0usize, 10, 100, 10_000, 100_000]
        .iter()
        .map(|&k| {
            let (b, a, d) = alloc::sut(|| scale::former_hub_cost(k));
            format!("{{\"leaves\":{k},\"bytes\":{b},\"allocs\":{a},\"ring_destroyed\":{d}}}")
        })
        .collect();
    let f = |v: &Vec<scale::SmallCost>| v.iter().map(|c| format!("{{\"bytes\":{},\"allocs\":{},\"pops\":{},\"scanned\":{},\"destroyed\":{}}}", c.bytes, c.allocs, c.pops, c.scanned, c.destroyed)).collect::<Vec<_>>().join(",");
    out(&format!("{{\"type\":\"after-big\",\"big_n\":{},\"big_destroyed\":{},\"before\":[{}],\"after\":[{}],\"former_hub\":[{}]}}\n", big.n, big.destroyed, f(&before), f(&after), hubs.join(",")));
    0
}

fn huge_cmd(a: &Args) -> i32 {
    let max_pow = a.num("--max-pow", 24) as u32;
    shared::init();
    alloc::reset(1, false);
    let mut parts = vec![];
    for pow in [8u32, 16, 24, 31, 32, 33] {
        if pow <= max_pow {
            let o = alloc::sut(|| scale::huge_count(pow));
            parts.push(format!("{{\"pow\":{},\"count_errors\":{},\"destroyed_while_held\":{},\"ms\":{}}}", o.pow, o.count_errors, o.destroyed_while_held, o.ms));
        }
    }
    let adopt_pow = a.num("--adopt-pow", 0) as u32;
    let mut ad = vec![];
    for pow in [8u32, 16, 24, 32] {
        if pow <= adopt_pow {
            let o = alloc::sut(|| scale::huge_adopt(pow));
            ad.push(format!("{{\"pow\":{},\"destroyed\":{},\"count_errors\":{},\"ms\":{}}}", o.pow, o.destroyed, o.count_errors, o.ms));
        }
    }
    out(&format!("{{\"type\":\"huge\",\"max_pow\":{max_pow},\"cases\":[{}],\"adopt_cases\":[{}]}}\n", parts.join(","), ad.join(",")));
    0
}

fn nested_cmd(a: &Args) -> i32 {
    let sizes: Vec<usize> = a.get("--sizes").unwrap_or("2,600").split(',').filter_map(|s| s.parse().ok()).collect();
    let tls = a.get("--tls").map(|s| s.to_string());
    shared::init();
    alloc::reset(1, false);
    let o = match tls.as_deref() {
        Some(order) => scale::tls_exit(order == "early"),
        None => {
            let th = std::thread::Builder::new().stack_size(256 * 1024).spawn(move || alloc::sut(|| scale::nested(&sizes)));
            match th.map(|h| h.join()) {
                Ok(Ok(o)) => o,
                _ => {
                    out("{\"type\":\"nested\",\"error\":\"panic\"}\n");
                    return 1;
                }
            }
        }
    };
    out(&format!("{{\"type\":\"nested\",\"n\":{},\"destroyed\":{},\"double\":{},\"leaked_blocks\":{}}}\n", o.n, o.destroyed, o.double, o.leaked_blocks));
    0
}

fn held_cmd(a: &Args) -> i32 {
    let shape = a.get("--shape").unwrap_or("ring").to_string();
    let n = a.num("--n", 100) as usize;
    let chords = a.num("--chords", 0) as usize;
    let seed = a.num("--seed", 1);
    let samples = a.num("--samples", 200) as usize;
    shared::init();
    alloc::reset(1, false);
    let shape2 = shape.clone();
    let th = std::thread::Builder::new().stack_size(256 * 1024).spawn(move || alloc::sut(|| scale::held_sweep(&shape2, n, chords, seed, samples)));
    let bad = match th.map(|h| h.join()) {
        Ok(Ok(b)) => b,
        _ => {
            out("{\"type\":\"held\",\"error\":\"panic\"}\n");
            return 1;
        }
    };
    let f: Vec<String> = bad.iter().map(|(x, e, d, dd)| format!("{{\"held\":{x},\"destroyed_while_held\":{e},\"destroyed\":{d},\"double\":{dd}}}")).collect();
    out(&format!("{{\"type\":\"held\",\"shape\":\"{shape}\",\"n\":{n},\"chords\":{chords},\"samples\":{},\"failures\":[{}]}}\n", samples.min(n), f.join(",")));
    0
}

fn threads_cmd(a: &Args) -> i32 {
    let t = a.num("--threads", 4) as usize;
    let rounds = a.num("--rounds", 20000) as usize;
    shared::init();
    alloc::reset(1, false);
    let bad = scale::threads(t, rounds, a.num("--seed", 1));
    let f: Vec<String> = bad.iter().map(|(ti, r, what)| format!("{{\"thread\":{ti},\"round\":{r},\"what\":\"{}\"}}", json_escape(what))).collect();
    out(&format!("{{\"type\":\"threads\",\"threads\":{t},\"rounds\":{rounds},\"failures\":[{}]}}\n", f.join(",")));
    0
}

fn allocfail_cmd(a: &Args) -> i32 {
    let k = a.num("--n", 4) as usize;
    let chords = a.num("--chords", 0) as usize;
    let at = a.num("--at", 0) as isize;
    shared::init();
    alloc::reset(1, false);
    let (destroyed, n, fired) = alloc::sut(|| scale::alloc_fail(k, chords, at, a.num("--seed", 1)));
    out(&format!("{{\"type\":\"allocfail\",\"n\":{n},\"destroyed\":{destroyed},\"fired\":{fired},\"at\":{at}}}\n"));
    0
}

fn soak_cmd(a: &Args) -> i32 {
    let max_pow = a.num("--max-pow", 24) as u32;
    shared::init();
    alloc::reset(1, false);
    let o = alloc::sut(|| scale::soak(max_pow));
    let f: Vec<String> = o.failures.iter().map(|(p, off, what)| format!("{{\"pow\":{p},\"off\":{off},\"what\":\"{what}\"}}")).collect();
    out(&format!("{{\"type\":\"soak\",\"max_pow\":{max_pow},\"traces\":{},\"witnesses\":{},\"wall_ms\":{},\"failures\":[{}]}}\n", o.traces, o.witnesses, o.wall_ms, f.join(",")));
    0
}

/// Print the explicit histories that the generator produces for a run range (one
/// per line: profile, layout, history), executed once natively on the way. Used to
/// feed the same histories to the interpreter cross-check.
fn dump(a: &Args) -> i32 {
    let pname = a.get("--profile").unwrap_or_else(|| die("--profile required"));
    let profile = profiles::profile(pname).unwrap_or_else(|| die("unknown profile"));
    let seed = a.num("--seed", 1);
    shared::init();
    alloc::init(true);
    alloc::set_fault_reporter(report::on_fault);
    install_panic_hook();
    report::SOFT_MASK.store(report::soft_mask_for(pname), Relaxed);
    let none = Faults::default();
    for run in a.num("--from", 0)..a.num("--to", 10) {
        // one child per history: a history that violates something natively ends its
        // child, and is still printed (up to the failing call) from the shared context
        let layout_seed = mix(seed, run, 1);
        sh().ctx_len = 0;
        let pid = unsafe { fork() };
        if pid < 0 {
            die("fork failed");
        }
        if pid > 0 {
            let (status, _hung) = wait_watch(pid, 6_000);
            if status != 0 {
                let c = &sh().ctx[..sh().ctx_len as usize];
                let text = String::from_utf8_lossy(c).to_string();
                if let Some(i) = text.find("\"ops\":\"") {
                    let ops: Vec<&str> = text[i + 7..].split(';').filter(|s| !s.starts_with('[')).collect();
                    out(&format!("{pname}\t{layout_seed}\t{}\n", ops.join(";")));
                }
            }
            continue;
        }
        report::F_QUIET.store(true, Relaxed);
        let mut cfg_rng = Rng(mix(seed, run, 3));
        let kn = profiles::knobs(pname, a.has("--thorough"), &mut cfg_rng);
        let opts = ExecOpts { dtor_downgrade_p: kn.dtor_downgrade_p, want_snaps: profile.want_snaps, record_dtors: false, layout_noise: false, c16_markers: false };
        let head = ctx_head(pname, seed, run, 0, &[layout_seed], &none);
        let o = execute(&head, Source::Generate { kn: &kn, hist_seed: mix(seed, run, 0) }, &none, layout_seed, &opts);
        let mut text = ops_text(&o.ops);
        for (k, ops) in &o.inline {
            for op in ops {
                text.push_str(&format!(";@{k} {}", op.text()));
            }
        }
        // the interpreter is some thousand times slower than native code: the rare very long
        // histories (churn runs, giant hubs) stay with the native runs
        if o.ops.len() <= 400 {
            out(&format!("{pname}\t{layout_seed}\t{text}\n"));
        }
        unsafe { alloc::_exit(0) };
    }
    0
}

/// Replay many explicit histories (the lines written by `dump`) in one process.
fn replay_many(a: &Args) -> i32 {
    let path = a.get("--file").unwrap_or_else(|| die("--file required"));
    let text = std::fs::read_to_string(path).unwrap_or_else(|e| die(&format!("{path}: {e}")));
    shared::init();
    alloc::init(true);
    alloc::set_fault_reporter(report::on_fault);
    install_panic_hook();
    let mut n = 0;
    for line in text.lines() {
        let parts: Vec<&str> = line.split('\t').collect();
        if parts.len() != 3 {
            continue;
        }
        let profile = profiles::profile(parts[0]).unwrap_or_else(|| die("unknown profile"));
        report::SOFT_MASK.store(report::soft_mask_for(parts[0]), Relaxed);
        let layout: u64 = parts[1].parse().unwrap_or(1);
        let (ops, inline) = ops::parse_history(parts[2]).unwrap_or_else(|e| die(&e));
        let faults = Faults { inline, ..Faults::default() };
        let opts = ExecOpts { dtor_downgrade_p: 0, want_snaps: profile.want_snaps, record_dtors: false, layout_noise: false, c16_markers: false };
        let head = ctx_head(parts[0], 0, n, 0, &[layout], &faults);
        out(&format!("{{\"type\":\"progress\",\"line\":{n}}}\n"));
        execute(&head, Source::Explicit(&ops), &faults, layout, &opts);
        n += 1;
    }
    out(&format!("{{\"type\":\"ok\",\"replayed\":{n}}}\n"));
    0
}

fn main() {
    let a = Args(std::env::args().collect());
    let cmd = a.0.get(1).map(|s| s.as_str()).unwrap_or("");
    let code = match cmd {
        "batch" => batch(&a),
        "replay" => replay(&a),
        "scale" => scale_cmd(&a),
        "soak" => soak_cmd(&a),
        "allocfail" => allocfail_cmd(&a),
        "threads" => threads_cmd(&a),
        "held" => held_cmd(&a),
        "nested" => nested_cmd(&a),
        "huge" => huge_cmd(&a),
        "after-big" => after_big_cmd(&a),
        "dump" => dump(&a),
        "replay-many" => replay_many(&a),
        _ => die("usage: cactus-sim batch|replay ..."),
    };
    unsafe { alloc::_exit(code) }
}
