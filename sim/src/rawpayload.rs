//! Adoption graphs over payload types OTHER than the instrumented node: the payload type
//! is a compile-time axis no history can vary (drop glue or not, alignment 1 / 2 / 8,
//! zero-sized), so the adoption-aware paths get a second, minimal world here. The strong
//! handles an object "owns" are raw pointers from `Rc::into_raw` kept outside the value
//! (the way an FFI embedding stores them) and are never released: the model counts them
//! for ever, also after their owner died. An object whose own count reaches zero is
//! destroyed alone (nothing releases what it owned, exactly as with std::rc); every other
//! death is the collection of an orphaned group, which needs no glue at all.
//!
//! Small fully recorded graphs, random release order of the outside handles (by `drop`
//! or by `try_unwrap`), observed through Weak handles, the allocator and the link-table
//! hook (there are no destructor events), judged by the same rules as C01/C03/C04/C08.

use crate::alloc::{self, sut};
use crate::gen::Rng;
use cactusref::{verif, Adopt, Rc, Weak};
use std::collections::BTreeSet;

/// alignment 8, no drop glue
pub struct Raw {
    pub id: usize,
    pub pad: [usize; 3],
}
#[derive(Clone, Copy)]
#[repr(C, packed)]
pub struct Packed1(pub u8, pub u32);
#[derive(Clone, Copy)]
#[repr(C, packed(2))]
pub struct Packed2(pub u8, pub u32);

#[repr(align(64))]
pub struct Over64(pub u8);
#[repr(align(16))]
pub struct Over16(pub u64);

pub const NTYPES: u32 = 10;
pub const TYPE_NAMES: [&str; NTYPES as usize] = ["struct (align 8, no drop glue)", "u8 (align 1)", "u16 (align 2)", "() (zero-sized)", "packed struct (align 1)", "packed(2) struct (align 2)", "String (drop glue, owns no handle)", "[u8;3]", "struct with alignment 64", "struct with alignment 16"];

#[derive(Clone, Debug)]
pub struct RawCase {
    pub k: usize,
    pub ty: u32,
    /// (owner, target) owned raw handles, all recorded as adoptions
    pub edges: Vec<(usize, usize)>,
    /// extra outside clones per object
    pub extra: Vec<usize>,
    /// releases of outside handles: (by try_unwrap?, object)
    pub order: Vec<(bool, usize)>,
    /// objects the program keeps NO Weak to (their box must go at the moment they die;
    /// they are observed through the allocator only)
    pub noweak: Vec<usize>,
}

impl RawCase {
    pub fn text(&self) -> String {
        let e: Vec<String> = self.edges.iter().map(|(a, b)| format!("{a}>{b}")).collect();
        let x: Vec<String> = self.extra.iter().map(|v| v.to_string()).collect();
        let o: Vec<String> = self.order.iter().map(|(u, v)| if *u { format!("u{v}") } else { v.to_string() }).collect();
        let w: Vec<String> = self.noweak.iter().map(|v| v.to_string()).collect();
        format!("Raw {};T {};E {};X {};O {};W {}", self.k, self.ty, e.join(" "), x.join(" "), o.join(" "), w.join(" "))
    }
    pub fn parse(t: &str) -> Result<RawCase, String> {
        let mut c = RawCase { k: 0, ty: 0, edges: vec![], extra: vec![], order: vec![], noweak: vec![] };
        for part in t.split(';').map(str::trim) {
            if let Some(r) = part.strip_prefix("Raw ") {
                c.k = r.trim().parse().map_err(|e| format!("{part}: {e}"))?;
            } else if let Some(r) = part.strip_prefix("T") {
                c.ty = r.trim().parse().map_err(|e| format!("{part}: {e}"))?;
            } else if let Some(r) = part.strip_prefix("E") {
                for e in r.split_whitespace() {
                    let (a, b) = e.split_once('>').ok_or(format!("bad edge {e}"))?;
                    c.edges.push((a.parse().map_err(|_| format!("bad edge {e}"))?, b.parse().map_err(|_| format!("bad edge {e}"))?));
                }
            } else if let Some(r) = part.strip_prefix("X") {
                c.extra = r.split_whitespace().map(|v| v.parse().unwrap_or(0)).collect();
            } else if let Some(r) = part.strip_prefix("W") {
                c.noweak = r.split_whitespace().filter_map(|v| v.parse().ok()).filter(|&v: &usize| v < 12).collect();
            } else if let Some(r) = part.strip_prefix("O") {
                for v in r.split_whitespace() {
                    let (u, n) = match v.strip_prefix('u') {
                        Some(n) => (true, n),
                        None => (false, v),
                    };
                    c.order.push((u, n.parse().map_err(|_| format!("bad release {v}"))?));
                }
            }
        }
        if c.k == 0 || c.k > 12 || c.ty >= NTYPES || c.extra.len() != c.k || c.edges.iter().any(|&(a, b)| a >= c.k || b >= c.k) || c.order.iter().any(|&(_, o)| o >= c.k) {
            return Err("malformed raw case".into());
        }
        Ok(c)
    }
}

pub fn generate(rng: &mut Rng) -> RawCase {
    let k = 1 + rng.below(6);
    let mut edges = vec![];
    let shape = rng.below(4);
    match shape {
        0 => {
            for i in 0..k {
                edges.push((i, (i + 1) % k));
            }
        }
        1 => {
            for i in 0..k {
                for j in 0..k {
                    if rng.chance(1, 2) {
                        edges.push((i, j));
                    }
                }
            }
        }
        2 => {
            for i in 0..k {
                edges.push((i, (i + 1) % k));
                if rng.chance(1, 3) {
                    edges.push((i, i));
                }
                if rng.chance(1, 3) {
                    edges.push((i, rng.below(k)));
                }
            }
        }
        _ => {
            for i in 0..k {
                if rng.chance(2, 3) {
                    edges.push((i, rng.below(k)));
                }
                if rng.chance(1, 3) {
                    edges.push((i, rng.below(k)));
                }
            }
        }
    }
    let extra: Vec<usize> = (0..k).map(|_| if rng.chance(1, 3) { 1 + rng.below(2) } else { 0 }).collect();
    let mut order = vec![];
    for i in 0..k {
        for _ in 0..1 + extra[i] {
            order.push((rng.chance(1, 4), i));
        }
    }
    for i in (1..order.len()).rev() {
        order.swap(i, rng.below(i + 1));
    }
    let noweak: Vec<usize> = if rng.chance(1, 2) { (0..k).filter(|_| rng.chance(1, 2)).collect() } else { vec![] };
    RawCase { k, ty: rng.below(NTYPES as usize) as u32, edges, extra, order, noweak }
}

pub type Verdict = Option<(&'static str, &'static str, String, usize)>;

pub fn run(c: &RawCase, on_step: &mut dyn FnMut(usize)) -> Verdict {
    match c.ty {
        0 => run_t(c, &|i| Raw { id: i, pad: [i; 3] }, on_step),
        1 => run_t(c, &|i| i as u8, on_step),
        2 => run_t(c, &|i| i as u16, on_step),
        3 => run_t(c, &|_| (), on_step),
        4 => run_t(c, &|i| Packed1(i as u8, 7), on_step),
        5 => run_t(c, &|i| Packed2(i as u8, 7), on_step),
        6 => run_t(c, &|i| format!("object {i}"), on_step),
        7 => run_t(c, &|i| [i as u8; 3], on_step),
        8 => run_t(c, &|i| Over64(i as u8), on_step),
        _ => run_t(c, &|i| Over16(i as u64), on_step),
    }
}

/// Returns None if the case held, or (kind, cause, message, step).
fn run_t<T>(c: &RawCase, mk: &dyn Fn(usize) -> T, on_step: &mut dyn FnMut(usize)) -> Verdict {
    let k = c.k;
    let tname = TYPE_NAMES[c.ty as usize];
    let mut outside: Vec<Vec<Rc<T>>> = (0..k).map(|_| vec![]).collect();
    let mut weaks: Vec<Option<Weak<T>>> = vec![];
    let mut addr: Vec<(usize, u32)> = vec![];
    for i in 0..k {
        let r = sut(|| Rc::new(mk(i)));
        let a = verif::rcbox_addr(&r);
        addr.push((a, alloc::block_gen(a)));
        weaks.push(if c.noweak.contains(&i) { None } else { Some(sut(|| Rc::downgrade(&r))) });
        outside[i].push(r);
    }
    for i in 0..k {
        for _ in 0..c.extra[i] {
            let cl = sut(|| Rc::clone(&outside[i][0]));
            outside[i].push(cl);
        }
    }
    // model
    let mut alive = vec![true; k];
    let mut raw_to = vec![0u32; k]; // owned raw handles to each object, from anyone, for ever
    let mut adopt = vec![vec![0u32; k]; k];
    let mut leaked: Vec<*const T> = vec![];
    for &(a, b) in &c.edges {
        let h = sut(|| Rc::clone(&outside[b][0]));
        sut(|| unsafe { Rc::adopt_unchecked(&outside[a][0], &h) });
        leaked.push(sut(|| Rc::into_raw(h)));
        raw_to[b] += 1;
        adopt[a][b] += 1;
    }
    let observe = |alive: &Vec<bool>, outside: &Vec<Vec<Rc<T>>>, raw_to: &Vec<u32>, adopt: &Vec<Vec<u32>>, weaks: &Vec<Option<Weak<T>>>, step: usize| -> Verdict {
        for i in 0..k {
            let Some(wk) = weaks[i].as_ref() else {
                // no Weak: the allocator is the witness - the box lives exactly as long as the object
                let st = alloc::block_state_gen(addr[i].0, addr[i].1);
                if alive[i] && st != alloc::BlockState::Live {
                    return Some(("premature-destruction", "other-payload-object-destroyed", format!("payload {tname}: the allocation of object {i} is gone although the object is reachable or not collectable"), step));
                }
                if crate::report::soft_enabled(crate::report::S_LEAK) && !alive[i] && st != alloc::BlockState::Released {
                    return Some(("not-released", "other-payload-allocation", format!("payload {tname}: object {i} is dead and no Weak to it exists, but its allocation has not been released"), step));
                }
                continue;
            };
            let sc = sut(|| wk.strong_count());
            let expect = if alive[i] { outside[i].len() as u32 + raw_to[i] } else { 0 };
            if alive[i] && sc == 0 {
                return Some(("premature-destruction", "other-payload-object-destroyed", format!("payload {tname}: object {i} is dead although it is reachable or not collectable: expected {expect} strong handles"), step));
            }
            if crate::report::soft_enabled(crate::report::S_COUNT) && sc as u32 != expect {
                return Some(("count-mismatch", "other-payload-strong-count", format!("payload {tname}: object {i} has strong count {sc}, expected {expect}"), step));
            }
            if crate::report::soft_enabled(crate::report::S_WEAK) && !alive[i] && sut(|| wk.upgrade()).is_some() {
                return Some(("weak-resurrect", "other-payload-upgrade", format!("payload {tname}: Weak to dead object {i} upgraded"), step));
            }
        }
        // the link tables against the adoptions made (objects we can still reach through a
        // handle); like every oracle that is not a safety oracle it is evaluated only by the
        // profiles it belongs to, so that it cannot mask their own symptom
        for i in 0..k {
            if !crate::report::soft_enabled(crate::report::S_LEDGER) {
                break;
            }
            let Some(h) = outside[i].first() else { continue };
            let snap = verif::links_snapshot(h);
            for &(a, kind, count) in &snap {
                let Some(p) = addr.iter().position(|&(x, _)| x == a) else {
                    return Some(("stale-record", "other-payload-unknown-address", format!("payload {tname}: the bookkeeping of object {i} names address {a:#x}, which is no object"), step));
                };
                if !alive[p] {
                    return Some(("stale-record", "other-payload-names-dead", format!("payload {tname}: the bookkeeping of object {i} still has an entry (kind {kind}, count {count}) naming object {p}, which is destroyed or whose allocation was given up"), step));
                }
                let want = match kind {
                    verif::KIND_FORWARD => Some(adopt[i][p]),
                    verif::KIND_BACKWARD => Some(adopt[p][i]),
                    _ => None,
                };
                // (a self adoption through a clone is a forward and a backward entry naming the
                // object itself; loopback entries come from adopting through the same handle)
                if kind == verif::KIND_LOOPBACK && p != i {
                    return Some(("ledger-mismatch", "other-payload-kind", format!("payload {tname}: object {i} has an entry of kind {kind} naming object {p}"), step));
                }
                if let Some(w) = want {
                    if w as usize != count {
                        return Some(("ledger-mismatch", "other-payload-count", format!("payload {tname}: object {i} has an entry (kind {kind}) for object {p} with count {count}, the adoptions made imply {w}"), step));
                    }
                }
            }
            for t in 0..k {
                if t != i && adopt[i][t] > 0 && !snap.iter().any(|&(a, kind, _)| kind == verif::KIND_FORWARD && a == addr[t].0) {
                    return Some(("ledger-mismatch", "other-payload-missing", format!("payload {tname}: object {i} adopted object {t} {} time(s) but has no forward entry for it", adopt[i][t]), step));
                }
                if t != i && adopt[t][i] > 0 && !snap.iter().any(|&(a, kind, _)| kind == verif::KIND_BACKWARD && a == addr[t].0) {
                    return Some(("asymmetric-record", "other-payload-missing", format!("payload {tname}: object {i} was adopted by object {t} {} time(s) but has no backward entry for it", adopt[t][i]), step));
                }
            }
        }
        None
    };
    if let Some(v) = observe(&alive, &outside, &raw_to, &adopt, &weaks, 0) {
        return Some(v);
    }
    for (step, &(unwrap, x)) in c.order.iter().enumerate() {
        on_step(step + 1);
        let Some(h) = outside[x].pop() else { continue };
        if unwrap {
            // try_unwrap: succeeds iff this is the only strong handle; the allocation is then
            // given up and every record naming it must go
            let unique = alive[x] && outside[x].is_empty() && raw_to[x] == 0;
            if (0..k).any(|t| adopt[x][t] > 0 || adopt[t][x] > 0) {
                crate::report::F_CONSUMING.store(true, std::sync::atomic::Ordering::Relaxed);
            }
            match sut(|| Rc::try_unwrap(h)) {
                Ok(v) => {
                    sut(move || drop(v));
                    if !unique {
                        return Some(("api-result", "other-payload-try_unwrap-ok", format!("payload {tname}: try_unwrap on object {x} succeeded although other strong handles exist"), step + 1));
                    }
                    alive[x] = false;
                    for t in 0..k {
                        adopt[x][t] = 0;
                        adopt[t][x] = 0;
                    }
                }
                Err(h) => {
                    if unique {
                        return Some(("api-result", "other-payload-try_unwrap-err", format!("payload {tname}: try_unwrap on the only strong handle to object {x} failed"), step + 1));
                    }
                    outside[x].push(h);
                }
            }
            if let Some(v) = observe(&alive, &outside, &raw_to, &adopt, &weaks, step + 1) {
                return Some(v);
            }
            continue;
        }
        // what must happen: the closure of x over recorded adoptions is collected iff every
        // strong handle to every member is a recorded adoption owned by a member
        let mut set = BTreeSet::new();
        let mut work = vec![x];
        while let Some(o) = work.pop() {
            if !alive[o] || !set.insert(o) {
                continue;
            }
            for t in 0..k {
                if adopt[o][t] > 0 {
                    work.push(t);
                }
            }
        }
        // a count that reaches zero destroys x alone: nothing releases the raw handles it owned
        let zero = alive[x] && outside[x].len() as u32 + raw_to[x] == 0;
        let orphan = alive[x]
            && !zero
            && set.iter().all(|&s| {
                let internal: u32 = set.iter().map(|&v| adopt[v][s]).sum();
                outside[s].len() as u32 + raw_to[s] == internal
            });
        sut(move || drop(h));
        if zero {
            set.clear();
            set.insert(x);
        }
        if orphan || zero {
            for &s in &set {
                alive[s] = false;
                for t in 0..k {
                    adopt[s][t] = 0;
                    adopt[t][s] = 0;
                }
            }
            for &s in &set {
                let still = match weaks[s].as_ref() {
                    Some(wk) => sut(|| wk.strong_count()) != 0,
                    None => alloc::block_state_gen(addr[s].0, addr[s].1) == alloc::BlockState::Live,
                };
                if crate::report::soft_enabled(crate::report::S_COLLECT) && still {
                    return Some(("not-collected", "other-payload-group-left", format!("payload {tname}: the group {:?} became orphaned (every handle a recorded adoption inside it) but object {s} is still alive", set), step + 1));
                }
            }
        }
        if let Some(v) = observe(&alive, &outside, &raw_to, &adopt, &weaks, step + 1) {
            return Some(v);
        }
    }
    // dead objects: allocation pinned by our Weak until it is dropped, then released
    for i in 0..k {
        let (a, g) = addr[i];
        if crate::report::soft_enabled(crate::report::S_LEAK) && weaks[i].is_some() && !alive[i] && alloc::block_state_gen(a, g) != alloc::BlockState::Live {
            return Some(("released-early", "other-payload-allocation", format!("payload {tname}: allocation of dead object {i} released while a Weak exists"), c.order.len()));
        }
    }
    let dead: Vec<bool> = alive.iter().map(|a| !a).collect();
    drop(outside);
    sut(move || drop(weaks));
    for i in 0..k {
        let (a, g) = addr[i];
        if crate::report::soft_enabled(crate::report::S_LEAK) && dead[i] && alloc::block_state_gen(a, g) != alloc::BlockState::Released {
            return Some(("not-released", "other-payload-allocation", format!("payload {tname}: allocation of dead object {i} not released after the last Weak was dropped"), c.order.len()));
        }
    }
    drop(leaked);
    None
}
