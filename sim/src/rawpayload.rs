//! A payload WITHOUT drop glue that nevertheless owns strong handles (as raw pointers
//! obtained from `Rc::into_raw`, the way an FFI embedding stores them). Whether `T`
//! needs drop is a compile-time property no history can vary, so the adoption-aware
//! paths get a second, minimal payload type here: small fully recorded adoption graphs,
//! random release order of the outside handles, observed through Weak handles (there
//! are no destructor events), judged by the same two-sided rule as C01/C03.
//!
//! Stored raw handles are never released (no glue): the model counts them for ever, also
//! after their holder died. An object whose own count reaches zero is destroyed alone (its
//! payload leaks what it stored, exactly as it would with std::rc); every other death is
//! the collection of an orphaned group, which needs no glue at all.

use crate::alloc::{self, sut};
use crate::gen::Rng;
use cactusref::{Adopt, Rc, Weak};
use std::cell::Cell;
use std::collections::BTreeSet;

const K: usize = 6;

pub struct Raw {
    pub id: usize,
    pub n: Cell<usize>,
    pub peers: [Cell<*const Raw>; K],
}

#[derive(Clone, Debug)]
pub struct RawCase {
    pub k: usize,
    /// (owner, target) stored raw handles, all recorded as adoptions
    pub edges: Vec<(usize, usize)>,
    /// extra outside clones per object
    pub extra: Vec<usize>,
    /// release order: object index of the outside handle released at each step
    pub order: Vec<usize>,
}

impl RawCase {
    pub fn text(&self) -> String {
        let e: Vec<String> = self.edges.iter().map(|(a, b)| format!("{a}>{b}")).collect();
        let x: Vec<String> = self.extra.iter().map(|v| v.to_string()).collect();
        let o: Vec<String> = self.order.iter().map(|v| v.to_string()).collect();
        format!("Raw {};E {};X {};O {}", self.k, e.join(" "), x.join(" "), o.join(" "))
    }
    pub fn parse(t: &str) -> Result<RawCase, String> {
        let mut c = RawCase { k: 0, edges: vec![], extra: vec![], order: vec![] };
        for part in t.split(';').map(str::trim) {
            if let Some(r) = part.strip_prefix("Raw ") {
                c.k = r.trim().parse().map_err(|e| format!("{part}: {e}"))?;
            } else if let Some(r) = part.strip_prefix("E") {
                for e in r.split_whitespace() {
                    let (a, b) = e.split_once('>').ok_or(format!("bad edge {e}"))?;
                    c.edges.push((a.parse().map_err(|_| format!("bad edge {e}"))?, b.parse().map_err(|_| format!("bad edge {e}"))?));
                }
            } else if let Some(r) = part.strip_prefix("X") {
                c.extra = r.split_whitespace().map(|v| v.parse().unwrap_or(0)).collect();
            } else if let Some(r) = part.strip_prefix("O") {
                c.order = r.split_whitespace().map(|v| v.parse().unwrap_or(0)).collect();
            }
        }
        if c.k == 0 || c.k > 12 || c.extra.len() != c.k || c.edges.iter().any(|&(a, b)| a >= c.k || b >= c.k) || c.order.iter().any(|&o| o >= c.k) {
            return Err("malformed raw case".into());
        }
        Ok(c)
    }
}

pub fn generate(rng: &mut Rng) -> RawCase {
    let k = 1 + rng.below(6);
    let mut edges = vec![];
    let mut out = vec![0usize; k];
    let shape = rng.below(4);
    let mut add = |a: usize, b: usize, edges: &mut Vec<(usize, usize)>, out: &mut Vec<usize>| {
        if out[a] < K {
            out[a] += 1;
            edges.push((a, b));
        }
    };
    match shape {
        0 => {
            for i in 0..k {
                add(i, (i + 1) % k, &mut edges, &mut out);
            }
        }
        1 => {
            for i in 0..k {
                for j in 0..k {
                    if rng.chance(1, 2) {
                        add(i, j, &mut edges, &mut out);
                    }
                }
            }
        }
        2 => {
            for i in 0..k {
                add(i, (i + 1) % k, &mut edges, &mut out);
                if rng.chance(1, 3) {
                    add(i, i, &mut edges, &mut out);
                }
                if rng.chance(1, 3) {
                    add(i, rng.below(k), &mut edges, &mut out);
                }
            }
        }
        _ => {
            for i in 0..k {
                if rng.chance(2, 3) {
                    add(i, rng.below(k), &mut edges, &mut out);
                }
                if rng.chance(1, 3) {
                    add(i, rng.below(k), &mut edges, &mut out);
                }
            }
        }
    }
    let extra: Vec<usize> = (0..k).map(|_| if rng.chance(1, 3) { 1 + rng.below(2) } else { 0 }).collect();
    let mut order = vec![];
    for i in 0..k {
        for _ in 0..1 + extra[i] {
            order.push(i);
        }
    }
    for i in (1..order.len()).rev() {
        order.swap(i, rng.below(i + 1));
    }
    RawCase { k, edges, extra, order }
}

/// Returns None if the case held, or (kind, cause, message, step).
pub fn run(c: &RawCase, on_step: &mut dyn FnMut(usize)) -> Option<(&'static str, &'static str, String, usize)> {
    let k = c.k;
    let mut outside: Vec<Vec<Rc<Raw>>> = (0..k).map(|_| vec![]).collect();
    let mut weaks: Vec<Weak<Raw>> = vec![];
    let mut addr: Vec<(usize, u32)> = vec![];
    for i in 0..k {
        let r = sut(|| Rc::new(Raw { id: i, n: Cell::new(0), peers: std::array::from_fn(|_| Cell::new(std::ptr::null())) }));
        let a = cactusref::verif::rcbox_addr(&r);
        addr.push((a, alloc::block_gen(a)));
        weaks.push(sut(|| Rc::downgrade(&r)));
        outside[i].push(r);
    }
    for i in 0..k {
        for _ in 0..c.extra[i] {
            let cl = sut(|| Rc::clone(&outside[i][0]));
            outside[i].push(cl);
        }
    }
    // model
    let mut alive = vec![true; k];
    let mut raw_to = vec![0u32; k]; // raw handles to each object, from anyone, for ever
    let mut adopt = vec![vec![0u32; k]; k];
    for &(a, b) in &c.edges {
        let h = sut(|| Rc::clone(&outside[b][0]));
        sut(|| unsafe { Rc::adopt_unchecked(&outside[a][0], &h) });
        let p = sut(|| Rc::into_raw(h));
        let o = &outside[a][0];
        let n = o.n.get();
        o.peers[n].set(p);
        o.n.set(n + 1);
        raw_to[b] += 1;
        adopt[a][b] += 1;
    }
    let observe = |alive: &Vec<bool>, outside: &Vec<Vec<Rc<Raw>>>, raw_to: &Vec<u32>, weaks: &Vec<Weak<Raw>>, step: usize| -> Option<(&'static str, &'static str, String, usize)> {
        for i in 0..k {
            let sc = sut(|| weaks[i].strong_count());
            let expect = if alive[i] { outside[i].len() as u32 + raw_to[i] } else { 0 };
            if alive[i] && sc == 0 {
                return Some(("premature-destruction", "raw-payload-object-destroyed", format!("object {i} (payload without drop glue) is dead although it is reachable or not collectable: expected {expect} strong handles"), step));
            }
            if sc as u32 != expect {
                return Some(("count-mismatch", "raw-payload-strong-count", format!("object {i} (payload without drop glue): strong count {sc}, expected {expect}"), step));
            }
            if !alive[i] && sut(|| weaks[i].upgrade()).is_some() {
                return Some(("weak-resurrect", "raw-payload-upgrade", format!("Weak to collected object {i} upgraded"), step));
            }
        }
        None
    };
    if let Some(v) = observe(&alive, &outside, &raw_to, &weaks, 0) {
        return Some(v);
    }
    for (step, &x) in c.order.iter().enumerate() {
        on_step(step + 1);
        let Some(h) = outside[x].pop() else { continue };
        // what must happen: the closure of x over recorded adoptions is collected iff every
        // strong handle to every member is a recorded adoption held by a member
        let mut set = BTreeSet::new();
        let mut work = vec![x];
        while let Some(o) = work.pop() {
            if !alive[o] || !set.insert(o) {
                continue;
            }
            for t in 0..k {
                if adopt[o][t] > 0 {
                    work.push(t);
                }
            }
        }
        // a count that reaches zero destroys x alone: its value has no glue, so the raw
        // handles it stored are leaked by the payload (as with std::rc), not released
        let zero = alive[x] && outside[x].len() as u32 + raw_to[x] == 0;
        let orphan = alive[x]
            && !zero
            && set.iter().all(|&s| {
                let internal: u32 = set.iter().map(|&v| adopt[v][s]).sum();
                outside[s].len() as u32 + raw_to[s] == internal
            });
        sut(move || drop(h));
        if zero {
            set.clear();
            set.insert(x);
        }
        if orphan || zero {
            for &s in &set {
                alive[s] = false;
                for t in 0..k {
                    adopt[s][t] = 0;
                    adopt[t][s] = 0;
                }
            }
            for &s in &set {
                if sut(|| weaks[s].strong_count()) != 0 {
                    return Some(("not-collected", "raw-payload-group-left", format!("the group {:?} of objects whose payload has no drop glue became orphaned (every handle a recorded adoption inside it) but object {s} is still alive", set), step + 1));
                }
            }
        }
        if let Some(v) = observe(&alive, &outside, &raw_to, &weaks, step + 1) {
            return Some(v);
        }
    }
    // collected objects: allocation pinned by our Weak until it is dropped, then released
    for i in 0..k {
        let (a, g) = addr[i];
        if !alive[i] && alloc::block_state_gen(a, g) != alloc::BlockState::Live {
            return Some(("released-early", "raw-payload-allocation", format!("allocation of collected object {i} released while a Weak exists"), c.order.len()));
        }
    }
    let dead: Vec<bool> = alive.iter().map(|a| !a).collect();
    drop(outside);
    sut(move || drop(weaks));
    for i in 0..k {
        let (a, g) = addr[i];
        if dead[i] && alloc::block_state_gen(a, g) != alloc::BlockState::Released {
            return Some(("not-released", "raw-payload-allocation", format!("allocation of collected object {i} not released after the last Weak was dropped"), c.order.len()));
        }
    }
    None
}
