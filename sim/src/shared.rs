//! State that must survive the death of a worker child: progress, statistics,
//! the distinct-case table and the pre-rendered context of the current execution
//! (so that a fault handler, or the supervisor after an unexplained death, can
//! still name the exact history that was running).

use crate::alloc::raw_write;
use std::sync::atomic::{AtomicPtr, Ordering::Relaxed};

extern "C" {
    fn mmap(addr: *mut u8, len: usize, prot: i32, flags: i32, fd: i32, off: i64) -> *mut u8;
}

#[cfg(not(miri))]
pub const CTX_CAP: usize = 1 << 17;
#[cfg(miri)]
pub const CTX_CAP: usize = 1 << 13;
#[cfg(not(miri))]
pub const DISTINCT_CAP: usize = 1 << 21; // open addressing, u64 keys, 16 MiB
#[cfg(miri)]
pub const DISTINCT_CAP: usize = 1 << 8;
pub const NSTATS: usize = 160;
pub const SAMPLE_CAP: usize = 1 << 14;

#[repr(C)]
pub struct Shared {
    pub cur_run: u64,
    pub next_run: u64,
    pub printed: u64,
    pub ctx_len: u64,
    pub stats: [u64; NSTATS],
    pub distinct_n: u64,
    pub distinct2_n: u64,
    pub sample_len: u64,
    /// C16 child markers: 0 not reached, 1 about to clone, 2 clone returned
    pub c16_state: u64,
    /// bit0 alive, bit1 doomed, bit2 mustlive
    pub c16_flags: u64,
    pub c16_target: u64,
    /// bumped at every execution start and every top-level call (watchdog)
    pub heartbeat: u64,
    pub ctx: [u8; CTX_CAP],
    pub sample: [u8; SAMPLE_CAP],
    pub distinct: [u64; DISTINCT_CAP],
    pub distinct2: [u64; DISTINCT_CAP],
}

static SHARED: AtomicPtr<Shared> = AtomicPtr::new(std::ptr::null_mut());

#[cfg(miri)]
pub fn init() {
    // Miri has no mmap: a private, leaked allocation is enough for a single process
    let layout = std::alloc::Layout::new::<Shared>();
    let p = unsafe { std::alloc::alloc_zeroed(layout) };
    SHARED.store(p as *mut Shared, Relaxed);
}

#[cfg(not(miri))]
pub fn init() {
    let len = std::mem::size_of::<Shared>();
    // MAP_SHARED | MAP_ANONYMOUS | MAP_NORESERVE
    let p = unsafe { mmap(std::ptr::null_mut(), len, 3, 0x01 | 0x20 | 0x4000, -1, 0) };
    if p as isize == -1 || p.is_null() {
        raw_write(2, b"HARNESS-ERROR cannot map shared state\n");
        unsafe { crate::alloc::_exit(2) };
    }
    SHARED.store(p as *mut Shared, Relaxed);
}

#[inline]
pub fn sh() -> &'static mut Shared {
    unsafe { &mut *SHARED.load(Relaxed) }
}

macro_rules! stats {
    ($($name:ident),* $(,)?) => {
        #[allow(non_camel_case_types)]
        #[derive(Clone, Copy, Debug)]
        #[repr(usize)]
        pub enum St { $($name),*, _COUNT }
        pub const STAT_NAMES: &[&str] = &[$(stringify!($name)),*];
    };
}

stats! {
    runs, execs, calls, steps, dtor_events, nontrivial,
    // call kinds
    op_new, op_clone, op_drop, op_store, op_store_adopt, op_take, op_take_elided, op_adopt, op_unadopt,
    op_unadopt_unmatched, op_selfsame, op_unselfsame, op_downgrade, op_upgrade, op_upgrade_some, op_upgrade_none,
    op_weakclone, op_weakdrop, op_storeweak, op_tryunwrap_ok, op_tryunwrap_err, op_makemut_unique, op_makemut_clone,
    op_makemut_steal, op_slot_makemut, op_getmut_some, op_getmut_none, op_intoraw, op_fromraw, op_incstrong, op_decstrong, op_dropvalue,
    op_noise, op_noop,
    // fault kinds (fired)
    f_layout_runs, f_noise_alloc, f_dtor_panic, f_dtor_script, f_script_action, f_nested_collection, f_elided_unadopt,
    f_unmatched_unadopt, f_partial_recording, f_same_handle_self_adopt, f_weak_inside_value, f_weak_upgrade_in_dtor,
    p_raw_payload_cases, f_log_backend_drops_weak, op_getmut_in_dtor, p_destroyed_in_full_during_unwind, p_quarantine_given_back_runs, f_clone_impl_releases_handle, op_clone_from, f_panic_payload_carries_handles, op_weakraw, f_weak_raw_round_trip_dead, op_new_uninit, op_assume_init, f_adopt_before_assume_init, f_weak_upgrade_dying_peer_none, f_consuming_on_adopted, f_dead_handle_drop_in_dtor, f_dead_handle_clone_in_dtor,
    f_small_stack, f_self_adopt_clone, f_script_combos, f_log_trace_runs, f_clone_panic, f_dtor_panic_early, f_addr_reuse_runs,
    // probes
    p_path_plain, p_path_zero_links, p_path_cycle, p_cycle_members, p_cycle_survivors, p_trace_calls, p_trace_pops,
    p_trace_visits, p_trace_scanned, p_stale_access, p_group_collected, p_group_ge3, p_outside_survived_collection,
    p_obligations, p_obligations_group, p_quiescent, p_unreachable_garbage_left, p_weak_pinned_alloc,
    p_p_broken, p_objects_max, p_calls_max, p_destroyed, p_c14_checked_calls, p_c08_snapshots, p_c08_entries,
    p_c06_count_checks, p_c05_upgrade_checks, p_c05_dead_weak_checks, p_c04_block_checks, p_c01_deref_checks,
    p_layout_orders_differ, p_layout_compared, p_panic_after_continue, p_interrupted_objects, p_zombies,
    p_script_legal_actions, p_unequal_inout_group, p_parallel_edges, p_self_loop_clone, p_dtor_weak_obs,
    p_known_finding, p_other_violation, p_child_restarts, p_pages_used_max, p_release_frames,
    p_c12_after_consume_ops, p_c13_elided_then_collect, p_tail_group, p_raw_ghosts,
    p_order_pairs, p_blocks_reused, p_layout_skipped_not_fully_recorded, p_typed_programs, p_c15_visit_checks, p_nested_obligation_checks, p_c06_nested_count_checks, f_downgrade_dead_peer_in_dtor, f_downgrade_live_in_dtor,
    c16_scenarios, c16_clone_aborted_dead, c16_clone_aborted_doomed, c16_clone_live_ok, c16_clone_unreachable_either, c16_drop_ok, c16_noop,
}

#[inline]
pub fn st(s: St, n: u64) {
    sh().stats[s as usize] += n;
}
#[inline]
pub fn st_max(s: St, n: u64) {
    let v = &mut sh().stats[s as usize];
    if n > *v {
        *v = n;
    }
}

fn insert(tab: &mut [u64; DISTINCT_CAP], n: &mut u64, key: u64) {
    let key = if key == 0 { 1 } else { key };
    if *n as usize >= DISTINCT_CAP / 2 {
        return; // table saturated: count conservatively (stop counting)
    }
    let mut i = (key.wrapping_mul(0x9E3779B97F4A7C15) >> 43) as usize & (DISTINCT_CAP - 1);
    loop {
        if tab[i] == key {
            return;
        }
        if tab[i] == 0 {
            tab[i] = key;
            *n += 1;
            return;
        }
        i = (i + 1) & (DISTINCT_CAP - 1);
    }
}

pub fn distinct_insert(key: u64) {
    let s = sh();
    insert(&mut s.distinct, &mut s.distinct_n, key);
}
pub fn distinct2_insert(key: u64) {
    let s = sh();
    insert(&mut s.distinct2, &mut s.distinct2_n, key);
}

pub fn set_ctx(line: &str) {
    let s = sh();
    let b = line.as_bytes();
    let n = b.len().min(CTX_CAP);
    s.ctx[..n].copy_from_slice(&b[..n]);
    s.ctx_len = n as u64;
    s.printed = 0;
}

pub fn set_sample(line: &str) {
    let s = sh();
    let b = line.as_bytes();
    if b.len() > SAMPLE_CAP {
        // a cut JSON fragment would make the whole stats line unparsable: keep the previous sample
        return;
    }
    let n = b.len();
    s.sample[..n].copy_from_slice(&b[..n]);
    s.sample_len = n as u64;
}

pub fn fnv(h: u64, x: u64) -> u64 {
    (h ^ x).wrapping_mul(0x100000001b3)
}
pub fn fnv_bytes(mut h: u64, b: &[u8]) -> u64 {
    for &c in b {
        h = fnv(h, c as u64);
    }
    h
}
