//! C08, order independence: "later collection decisions depend only on the currently
//! recorded adoptions and handle counts, not on the order in which they were made".
//! Two histories reach the same ledger and the same stored handles by different
//! routes (different edge order, record-at-store vs store-then-adopt, cancelling
//! adopt/unadopt pairs, unmatched unadopts at different times); the same sequence of
//! releases must then destroy the same objects and leave the same counts.

use crate::gen::Rng;
use crate::ops::{Id, Op};

pub struct Pair {
    pub a: Vec<Op>,
    pub b: Vec<Op>,
    /// number of trailing calls (the common release sequence) to compare
    pub tail: usize,
}

/// Both routes store the handles in the same order (the order in which a dying value
/// releases its handles is part of the program, not of the bookkeeping); only the
/// bookkeeping calls differ.
fn route(rng: &mut Rng, k: usize, edges: &[(usize, usize, bool)], order: &[usize], next_h: &mut Id, noisy: bool, pair_noise: bool) -> Vec<Op> {
    let mut ops = vec![];
    // handles 0..k are the outside handles of objects 0..k
    let mut later: Vec<(Id, Id)> = vec![];
    for &e in order {
        let (i, j, adopt) = edges[e];
        let d = *next_h;
        *next_h += 1;
        ops.push(Op::Clone { h: j as Id, d });
        if adopt && noisy && i != j && rng.chance(1, 2) {
            // store unrecorded now, record later through the outside handles
            ops.push(Op::Store { h: d, owner: i as Id, adopt: false });
            later.push((i as Id, j as Id));
        } else {
            ops.push(Op::Store { h: d, owner: i as Id, adopt });
        }
        // (only when every stored handle is recorded: otherwise the compensating adopt
        // could record a handle that the other route leaves unrecorded)
        if noisy && pair_noise && rng.chance(1, 4) {
            // an unadopt of a pair that may or may not be recorded yet, immediately
            // compensated so that the ledger is unchanged either way
            let (x, y) = (rng.below(k) as Id, rng.below(k) as Id);
            if x != y {
                ops.push(Op::Unadopt { owner: x, target: y });
                ops.push(Op::Adopt { owner: x, target: y });
            }
        }
    }
    for i in (1..later.len()).rev() {
        later.swap(i, rng.below(i + 1));
    }
    for (o, t) in later {
        ops.push(Op::Adopt { owner: o, target: t });
    }
    ops
}

pub fn generate(rng: &mut Rng, thorough: bool) -> Pair {
    let k = 2 + rng.below(if thorough { 5 } else { 4 });
    let mut edges: Vec<(usize, usize, bool)> = vec![];
    let density = 1 + rng.below(4);
    let partial = rng.chance(1, 3);
    for i in 0..k {
        for j in 0..k {
            if rng.below(6) < density {
                for _ in 0..1 + rng.below(2) * rng.below(2) {
                    edges.push((i, j, !partial || rng.chance(2, 3)));
                }
            }
        }
    }
    let mut news = vec![];
    for i in 0..k {
        news.push(Op::New { o: i as Id, h: i as Id });
    }
    let mut ha = k as Id;
    let mut hb = k as Id;
    let mut order: Vec<usize> = (0..edges.len()).collect();
    for i in (1..order.len()).rev() {
        order.swap(i, rng.below(i + 1));
    }
    let ra = route(rng, k, &edges, &order, &mut ha, false, false);
    let rb = route(rng, k, &edges, &order, &mut hb, true, !partial);
    // common release sequence over the outside handles, with a few clones so that
    // "which handle dies last" varies
    let mut tail: Vec<Op> = vec![];
    let base = 10_000;
    let mut extra = 0;
    let mut hs: Vec<Id> = (0..k as Id).collect();
    for i in 0..k {
        if rng.chance(1, 3) {
            let d = base + extra;
            extra += 1;
            tail.push(Op::Clone { h: i as Id, d });
            hs.push(d);
        }
    }
    while !hs.is_empty() {
        let i = rng.below(hs.len());
        tail.push(Op::Drop { h: hs.swap_remove(i) });
    }
    let mut a = news.clone();
    a.extend(ra);
    a.extend(tail.iter().cloned());
    let mut b = news;
    b.extend(rb);
    b.extend(tail.iter().cloned());
    Pair { a, b, tail: tail.len() }
}
