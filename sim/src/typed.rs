//! C07, payload-type variety: the same small programs on `cactusref::Rc<T>` and
//! `std::rc::Rc<T>` for zero-sized, over-aligned, padded, large and non-reflexive
//! (`f64::NAN`) `T`. The single struct payload of `diffstd.rs` cannot see layout or
//! offset mistakes in `from_raw` / `as_ptr` / `From<Box<T>>`, nor equality shortcuts.

use crate::alloc::har;
use crate::gen::Rng;

pub type Id = u32;

#[derive(Clone, Debug, PartialEq, Eq)]
pub enum T {
    New(Id, i32),
    /// `new_uninit`, a Weak to the uninitialised box taken, the value written through
    /// `get_mut_unchecked` while that Weak exists, `assume_init`
    NewTwoPhase(Id, i32),
    FromBox(Id, i32),
    FromT(Id, i32),
    Clone(Id, Id),
    Drop(Id),
    Downgrade(Id, Id),
    Upgrade(Id, Id),
    WeakDrop(Id),
    RawRound(Id),
    WRawRound(Id),
    IncDec(Id),
    Eq(Id, Id),
    AsPtr(Id),
    TryUnwrap(Id),
    MakeMut(Id, i32),
    GetMut(Id, i32),
    Counts(Id),
    WeakNew(Id),
    Borrow(Id),
    Fmt(Id),
}

impl T {
    pub fn text(&self) -> String {
        format!("{:?}", self).replace('(', " ").replace(')', "").replace(',', "")
    }
    pub fn parse(t: &str) -> Result<T, String> {
        let mut it = t.split_whitespace();
        let n = it.next().ok_or("empty")?;
        let a: Vec<i64> = it.map(|x| x.parse::<i64>().map_err(|e| format!("{t}: {e}"))).collect::<Result<_, _>>()?;
        let u = |i: usize| -> Result<Id, String> { a.get(i).map(|&v| v as Id).ok_or(format!("{t}: missing argument")) };
        let k = |i: usize| -> Result<i32, String> { a.get(i).map(|&v| v as i32).ok_or(format!("{t}: missing argument")) };
        Ok(match n {
            "New" => T::New(u(0)?, k(1)?),
            "NewTwoPhase" => T::NewTwoPhase(u(0)?, k(1)?),
            "FromBox" => T::FromBox(u(0)?, k(1)?),
            "FromT" => T::FromT(u(0)?, k(1)?),
            "Clone" => T::Clone(u(0)?, u(1)?),
            "Drop" => T::Drop(u(0)?),
            "Downgrade" => T::Downgrade(u(0)?, u(1)?),
            "Upgrade" => T::Upgrade(u(0)?, u(1)?),
            "WeakDrop" => T::WeakDrop(u(0)?),
            "RawRound" => T::RawRound(u(0)?),
            "WRawRound" => T::WRawRound(u(0)?),
            "IncDec" => T::IncDec(u(0)?),
            "Eq" => T::Eq(u(0)?, u(1)?),
            "AsPtr" => T::AsPtr(u(0)?),
            "TryUnwrap" => T::TryUnwrap(u(0)?),
            "MakeMut" => T::MakeMut(u(0)?, k(1)?),
            "GetMut" => T::GetMut(u(0)?, k(1)?),
            "Counts" => T::Counts(u(0)?),
            "WeakNew" => T::WeakNew(u(0)?),
            "Borrow" => T::Borrow(u(0)?),
            "Fmt" => T::Fmt(u(0)?),
            _ => return Err(format!("unknown typed op {n}")),
        })
    }
}

#[derive(Clone, Debug, PartialEq, PartialOrd)]
#[repr(align(64))]
pub struct Al64(pub u8);
#[derive(Clone, Debug, PartialEq, PartialOrd)]
#[repr(align(32))]
pub struct Al32(pub [u8; 3]);
#[derive(Clone, Debug, PartialEq, PartialOrd)]
pub struct Zst;
#[derive(Clone, Debug, PartialEq, PartialOrd)]
pub struct NanField {
    pub tag: u8,
    pub x: f32,
}

/// A payload whose comparison, ordering and hashing methods are all hand written, all
/// distinguishable from one another (`ne` is not `!eq`, `lt` is not derived from
/// `partial_cmp`, ...) and all logged: the handle types must forward each operator to the
/// same method of the payload as `std::rc` does.
#[derive(Clone, Debug)]
pub struct Spy(pub i32);
thread_local! {
    static NOTES: std::cell::RefCell<String> = const { std::cell::RefCell::new(String::new()) };
}
fn note(s: &str) {
    NOTES.with(|n| {
        let mut n = n.borrow_mut();
        n.push_str(s);
        n.push(' ');
    });
}
pub fn take_notes() -> String {
    NOTES.with(|n| std::mem::take(&mut *n.borrow_mut()))
}
#[allow(clippy::all)]
impl PartialEq for Spy {
    fn eq(&self, o: &Self) -> bool {
        note("eq");
        self.0 == o.0
    }
    fn ne(&self, o: &Self) -> bool {
        note("ne");
        self.0 % 2 != o.0 % 2
    }
}
impl Eq for Spy {}
#[allow(clippy::all)]
impl PartialOrd for Spy {
    fn partial_cmp(&self, o: &Self) -> Option<std::cmp::Ordering> {
        note("partial_cmp");
        Some(self.0.cmp(&o.0))
    }
    fn lt(&self, o: &Self) -> bool {
        note("lt");
        self.0 % 3 < o.0 % 3
    }
    fn le(&self, o: &Self) -> bool {
        note("le");
        self.0 % 5 <= o.0 % 5
    }
    fn gt(&self, o: &Self) -> bool {
        note("gt");
        self.0 % 7 > o.0 % 7
    }
    fn ge(&self, o: &Self) -> bool {
        note("ge");
        self.0 % 4 >= o.0 % 4
    }
}
#[allow(clippy::all)]
impl Ord for Spy {
    fn cmp(&self, o: &Self) -> std::cmp::Ordering {
        note("cmp");
        o.0.cmp(&self.0)
    }
}
impl std::hash::Hash for Spy {
    fn hash<H: std::hash::Hasher>(&self, state: &mut H) {
        note("hash");
        (self.0 ^ 0x55).hash(state);
    }
}

/// Observations that need `Ord + Eq + Hash` on the handle type (only some payloads).
pub trait Extra: Sized {
    /// method-call syntax through the handle (payloads whose methods are named like the
    /// handle type's associated functions)
    fn meth_c(_a: &cactusref::Rc<Self>) -> String {
        String::new()
    }
    fn meth_s(_a: &std::rc::Rc<Self>) -> String {
        String::new()
    }
    /// `Display` through the handle with width / fill / precision / sign flags
    fn disp_c(_a: &cactusref::Rc<Self>) -> String {
        String::new()
    }
    fn disp_s(_a: &std::rc::Rc<Self>) -> String {
        String::new()
    }
    fn extra_c(_a: &cactusref::Rc<Self>, _b: &cactusref::Rc<Self>) -> String {
        String::new()
    }
    fn extra_s(_a: &std::rc::Rc<Self>, _b: &std::rc::Rc<Self>) -> String {
        String::new()
    }
}
fn ord_obs<H: Ord + Eq + std::hash::Hash>(a: &H, b: &H) -> String {
    use std::hash::{Hash, Hasher};
    let hv = |x: &H| {
        let mut h = std::collections::hash_map::DefaultHasher::new();
        x.hash(&mut h);
        h.finish()
    };
    format!("{:?} {} {} {:x} {}", a.cmp(b), std::ptr::eq(a.max(b), a), std::ptr::eq(a.min(b), a), hv(a), hv(a) == hv(b))
}
macro_rules! ord_extra {
    ($($t:ty),*) => {$(
        impl Extra for $t {
            fn extra_c(a: &cactusref::Rc<Self>, b: &cactusref::Rc<Self>) -> String {
                ord_obs(a, b)
            }
            fn extra_s(a: &std::rc::Rc<Self>, b: &std::rc::Rc<Self>) -> String {
                ord_obs(a, b)
            }
        }
    )*};
}
fn disp_obs<H: std::fmt::Display>(a: &H) -> String {
    format!("[{:>9}|{:<7}|{:^+11.2}|{:*^9.1}|{:03}]", a, a, a, a, a)
}
macro_rules! disp_extra {
    ($($t:ty),*) => {$(
        impl Extra for $t {
            fn disp_c(a: &cactusref::Rc<Self>) -> String {
                disp_obs(a)
            }
            fn disp_s(a: &std::rc::Rc<Self>) -> String {
                disp_obs(a)
            }
            fn extra_c(a: &cactusref::Rc<Self>, b: &cactusref::Rc<Self>) -> String {
                ord_obs(a, b)
            }
            fn extra_s(a: &std::rc::Rc<Self>, b: &std::rc::Rc<Self>) -> String {
                ord_obs(a, b)
            }
        }
    )*};
}
ord_extra!((), [u64; 40], (u8, u64), Spy);
disp_extra!(u8, String, Box<i32>);
impl Extra for f64 {
    fn disp_c(a: &cactusref::Rc<Self>) -> String {
        disp_obs(a)
    }
    fn disp_s(a: &std::rc::Rc<Self>) -> String {
        disp_obs(a)
    }
}
impl Extra for Al64 {}
impl Extra for Al32 {}
impl Extra for Zst {}
impl Extra for NanField {}

#[derive(Clone, Debug, PartialEq, PartialOrd)]
#[repr(align(16))]
pub struct Al16(pub u64);
#[derive(Clone, Copy, Debug, PartialEq, PartialOrd)]
#[repr(packed)]
pub struct Packed(pub u8, pub u32);
#[derive(Clone, Debug, PartialEq, PartialOrd)]
#[repr(align(4096))]
pub struct Al4096(pub u8);
impl Extra for Al16 {}
impl Extra for Packed {}
impl Extra for Al4096 {}
ord_extra!(u16, [u8; 5000]);

/// A payload whose own methods are named like the associated functions of the handle type.
#[derive(Clone, Debug, PartialEq, PartialOrd)]
pub struct Named(pub i32);
#[derive(Debug)]
pub struct Marker(pub u32);
impl Named {
    pub fn strong_count(&self) -> Marker {
        Marker(700 + self.0 as u32)
    }
    pub fn weak_count(&self) -> Marker {
        Marker(800)
    }
    pub fn as_ptr(&self) -> Marker {
        Marker(900)
    }
    pub fn downgrade(&self) -> Marker {
        Marker(1000)
    }
    pub fn into_raw(&self) -> Marker {
        Marker(1100)
    }
}
/// whatever a call returned, rendered without addresses
pub trait Show {
    fn show(&self) -> String;
}
impl Show for Marker {
    fn show(&self) -> String {
        format!("payload-method({})", self.0)
    }
}
impl Show for usize {
    fn show(&self) -> String {
        format!("usize({self})")
    }
}
impl<T> Show for *const T {
    fn show(&self) -> String {
        "pointer".into()
    }
}
macro_rules! named_calls {
    ($a:ident) => {
        format!("{} {} {} {} {}", $a.strong_count().show(), $a.weak_count().show(), $a.as_ptr().show(), $a.downgrade().show(), $a.into_raw().show())
    };
}
impl Extra for Named {
    fn meth_c(a: &cactusref::Rc<Self>) -> String {
        named_calls!(a)
    }
    fn meth_s(a: &std::rc::Rc<Self>) -> String {
        named_calls!(a)
    }
}

pub const NTYPES: u32 = 18;
pub const TYPE_NAMES: [&str; NTYPES as usize] = ["()", "u8", "f64(NaN for key 0)", "align64", "align32", "[u64;40]", "(u8,u64)", "String", "Box<i32>", "ZST struct", "struct with NaN field", "Spy (hand-written, logged eq/ne/lt/le/gt/ge/cmp/hash)", "u16", "align16 size 16 (u64 inside)", "packed (u8,u32)", "[u8;5000]", "align4096", "Named (methods named like the handle's associated functions)"];

macro_rules! typed_interp {
    ($m:ident, $x:ident, $d:ident, $n:ident, $($p:tt)*) => {
        pub mod $m {
            use super::{take_notes, Extra, Id, T};
            use std::borrow::Borrow;
            use std::collections::BTreeMap;
            use std::fmt::Debug;
            use $($p)*::{Rc as R, Weak as Wk};

            pub fn run<V: Clone + PartialEq + PartialOrd + Debug + Extra>(prog: &[T], mk: &dyn Fn(i32) -> V, log: &mut Vec<String>, on_step: &mut dyn FnMut(usize)) {
                let mut hs: BTreeMap<Id, R<V>> = BTreeMap::new();
                let mut ws: BTreeMap<Id, Wk<V>> = BTreeMap::new();
                let align = std::mem::align_of::<V>();
                for (i, op) in prog.iter().enumerate() {
                    on_step(i);
                    log.push(format!("#{i}"));
                    match *op {
                        T::New(d, k) => {
                            hs.entry(d).or_insert_with(|| R::new(mk(k)));
                        }
                        T::NewTwoPhase(d, k) => {
                            if !hs.contains_key(&d) {
                                let mut u = R::<V>::new_uninit();
                                let w = R::downgrade(&u);
                                log.push(format!("twophase0 {} {} {}", R::strong_count(&u), R::weak_count(&u), w.strong_count()));
                                unsafe {
                                    R::get_mut_unchecked(&mut u).as_mut_ptr().write(mk(k));
                                }
                                let r = unsafe { u.assume_init() };
                                log.push(format!("twophase1 {} {} {:?}", R::strong_count(&r), R::weak_count(&r), *r));
                                drop(w);
                                log.push(format!("twophase2 {} {}", R::strong_count(&r), R::weak_count(&r)));
                                hs.insert(d, r);
                            }
                        }
                        T::FromBox(d, k) => {
                            hs.entry(d).or_insert_with(|| R::from(Box::new(mk(k))));
                        }
                        T::FromT(d, k) => {
                            hs.entry(d).or_insert_with(|| R::from(mk(k)));
                        }
                        T::Clone(h, d) => {
                            if let (Some(r), false) = (hs.get(&h), hs.contains_key(&d)) {
                                let c = R::clone(r);
                                hs.insert(d, c);
                            }
                        }
                        T::Drop(h) => {
                            hs.remove(&h);
                        }
                        T::Downgrade(h, d) => {
                            if let (Some(r), false) = (hs.get(&h), ws.contains_key(&d)) {
                                ws.insert(d, R::downgrade(r));
                            }
                        }
                        T::Upgrade(w, d) => {
                            if let (Some(x), false) = (ws.get(&w), hs.contains_key(&d)) {
                                match x.upgrade() {
                                    Some(r) => {
                                        log.push(format!("up some {:?}", *r));
                                        hs.insert(d, r);
                                    }
                                    None => log.push("up none".into()),
                                }
                            }
                        }
                        T::WeakDrop(w) => {
                            ws.remove(&w);
                        }
                        T::WeakNew(d) => {
                            if !ws.contains_key(&d) {
                                let x: Wk<V> = Wk::new();
                                let p = x.as_ptr();
                                let x2 = unsafe { Wk::from_raw(x.into_raw()) };
                                log.push(format!("weaknew {} {} {}", x2.upgrade().is_none(), x2.strong_count(), x2.as_ptr() == p));
                                ws.insert(d, x2);
                            }
                        }
                        T::RawRound(h) => {
                            if let Some(r) = hs.remove(&h) {
                                let before = R::as_ptr(&r);
                                let p = R::into_raw(r);
                                let same = p == before;
                                let ok_align = (p as usize) % align == 0;
                                let val = unsafe { format!("{:?}", *p) };
                                let r = unsafe { R::from_raw(p) };
                                log.push(format!("raw {same} {ok_align} {val} {:?} {}", *r, R::strong_count(&r)));
                                hs.insert(h, r);
                            }
                        }
                        T::WRawRound(w) => {
                            if let Some(x) = ws.remove(&w) {
                                let before = x.as_ptr();
                                let p = x.into_raw();
                                let x = unsafe { Wk::from_raw(p) };
                                log.push(format!("wraw {} {} {} {:?}", p == before, x.strong_count(), x.weak_count(), x.upgrade().map(|r| format!("{:?}", *r))));
                                ws.insert(w, x);
                            }
                        }
                        T::IncDec(h) => {
                            if let Some(r) = hs.get(&h) {
                                let p = R::as_ptr(r);
                                unsafe { R::increment_strong_count(p) };
                                let a = R::strong_count(r);
                                unsafe { R::decrement_strong_count(p) };
                                log.push(format!("incdec {a} {} {:?}", R::strong_count(r), **r));
                            }
                        }
                        T::Eq(a, b) => {
                            if let (Some(x), Some(y)) = (hs.get(&a), hs.get(&b)) {
                                let _ = take_notes();
                                log.push(format!("eq {} {} {:?} {} {} {} {}", x == y, x != y, x.partial_cmp(y), x < y, x >= y, x <= y, x > y));
                                // which payload methods ran is compared only for handles to
                                // different allocations: for `T: Eq` std skips `T::eq`/`T::ne`
                                // when both handles name one allocation, which changes no
                                // result for a lawful `Eq` and is not a result of the API
                                let calls = take_notes();
                                if !R::ptr_eq(x, y) {
                                    log.push(format!("eqcalls {}", calls));
                                }
                                let o = V::$x(x, y);
                                let calls = take_notes();
                                log.push(format!("ord {} | {}", o, if R::ptr_eq(x, y) { String::new() } else { calls }));
                                let c = R::clone(x);
                                log.push(format!("eqself {} {} {:?}", *x == c, *x != c, x.partial_cmp(&c)));
                                let _ = take_notes();
                            }
                        }
                        T::AsPtr(h) => {
                            if let Some(r) = hs.get(&h) {
                                let p = R::as_ptr(r);
                                let via_deref: *const V = &**r;
                                let c = R::clone(r);
                                log.push(format!("asptr {} {} {} {:?}", (p as usize) % align == 0, p == via_deref, R::ptr_eq(r, &c), unsafe { &*p }));
                            }
                        }
                        T::TryUnwrap(h) => {
                            if let Some(r) = hs.remove(&h) {
                                match R::try_unwrap(r) {
                                    Ok(v) => log.push(format!("unwrap ok {v:?}")),
                                    Err(r) => {
                                        log.push(format!("unwrap err {:?}", *r));
                                        hs.insert(h, r);
                                    }
                                }
                            }
                        }
                        T::MakeMut(h, k) => {
                            if let Some(r) = hs.get_mut(&h) {
                                *R::make_mut(r) = mk(k);
                                log.push(format!("makemut {:?} {} {}", **r, R::strong_count(r), R::weak_count(r)));
                            }
                        }
                        T::GetMut(h, k) => {
                            if let Some(r) = hs.get_mut(&h) {
                                match R::get_mut(r) {
                                    Some(v) => {
                                        *v = mk(k);
                                        log.push("getmut some".into());
                                    }
                                    None => log.push("getmut none".into()),
                                }
                            }
                        }
                        T::Counts(h) => {
                            if let Some(r) = hs.get(&h) {
                                log.push(format!("counts {} {} {:?}", R::strong_count(r), R::weak_count(r), **r));
                                // method-call syntax through the handle must reach the payload's own
                                // methods, whatever they are called (the handle type has no methods)
                                log.push(format!("methods {}", V::$n(r)));
                            }
                        }
                        T::Borrow(h) => {
                            if let Some(r) = hs.get(&h) {
                                let b: &V = r.borrow();
                                let a: &V = r.as_ref();
                                log.push(format!("borrow {} {} {:?}", std::ptr::eq(b, a), std::ptr::eq(b, R::as_ptr(r)), b));
                            }
                        }
                        T::Fmt(h) => {
                            if let Some(r) = hs.get(&h) {
                                log.push(format!("fmt {:?} {}", r, format!("{:p}", *r) == format!("{:p}", R::as_ptr(r))));
                                // formatting flags must reach the pointer / the value
                                let p = R::as_ptr(r);
                                log.push(format!(
                                    "fmtflags {} {} {} {} {}",
                                    format!("{:32p}", *r) == format!("{:32p}", p),
                                    format!("{:#034p}", *r) == format!("{:#034p}", p),
                                    format!("{:<24p}|", *r) == format!("{:<24p}|", p),
                                    format!("{:#?}", r) == format!("{:#?}", **r),
                                    format!("{:>40?}", r) == format!("{:>40?}", **r)
                                ));
                                log.push(format!("display {}", V::$d(r)));
                            }
                        }
                    }
                }
                log.push("end".into());
                for (_, x) in ws.iter() {
                    log.push(format!("final w {} {}", x.strong_count(), x.weak_count()));
                }
                drop(hs);
                for (_, x) in ws.iter() {
                    log.push(format!("final w2 {} {} {}", x.strong_count(), x.weak_count(), x.upgrade().is_none()));
                }
            }
        }
    };
}
typed_interp!(cactus, extra_c, disp_c, meth_c, cactusref);
typed_interp!(stdrc, extra_s, disp_s, meth_s, std::rc);

pub fn generate(rng: &mut Rng) -> (u32, Vec<T>) {
    let ty = rng.below(NTYPES as usize) as u32;
    let n = 6 + rng.below(30);
    let mut v = vec![];
    let (mut nh, mut nw) = (0u32, 0u32);
    let mut id = |c: &mut u32| {
        *c += 1;
        *c - 1
    };
    v.push(T::New(id(&mut nh), 1));
    for _ in 0..n {
        let h = |rng: &mut Rng, n: u32| rng.below(n.max(1) as usize) as Id;
        let k = rng.below(3) as i32;
        v.push(match rng.below(26) {
            0 => T::New(id(&mut nh), k),
            1 => T::NewTwoPhase(id(&mut nh), k),
            2 | 3 => T::FromBox(id(&mut nh), k),
            4 => T::FromT(id(&mut nh), k),
            5 | 6 => T::Clone(h(rng, nh), id(&mut nh)),
            7 | 8 => T::Drop(h(rng, nh)),
            9 | 10 => T::Downgrade(h(rng, nh), id(&mut nw)),
            11 => T::Upgrade(h(rng, nw), id(&mut nh)),
            12 => T::WeakDrop(h(rng, nw)),
            13 | 14 => T::RawRound(h(rng, nh)),
            15 => T::WRawRound(h(rng, nw)),
            16 => T::IncDec(h(rng, nh)),
            17 | 18 => T::Eq(h(rng, nh), h(rng, nh)),
            19 => T::AsPtr(h(rng, nh)),
            20 => T::TryUnwrap(h(rng, nh)),
            21 => T::MakeMut(h(rng, nh), k),
            22 => T::GetMut(h(rng, nh), k),
            23 => T::Counts(h(rng, nh)),
            24 => T::WeakNew(id(&mut nw)),
            _ => {
                if rng.below(2) == 0 {
                    T::Borrow(h(rng, nh))
                } else {
                    T::Fmt(h(rng, nh))
                }
            }
        });
    }
    (ty, v)
}

pub fn prog_text(ty: u32, p: &[T]) -> String {
    let mut s = format!("Type {ty}");
    for t in p {
        s.push(';');
        s.push_str(&t.text());
    }
    s
}

pub fn parse_prog(t: &str) -> Result<(u32, Vec<T>), String> {
    let mut parts = t.split(';').map(str::trim).filter(|s| !s.is_empty());
    let first = parts.next().ok_or("empty typed program")?;
    let ty: u32 = first.strip_prefix("Type ").ok_or("typed program must start with `Type n`")?.trim().parse().map_err(|e| format!("{first}: {e}"))?;
    let ops = parts.map(T::parse).collect::<Result<Vec<_>, _>>()?;
    Ok((ty, ops))
}

fn both<V: Clone + PartialEq + PartialOrd + std::fmt::Debug + Extra>(prog: &[T], mk: &dyn Fn(i32) -> V, on_step: &mut dyn FnMut(usize)) -> (Vec<String>, Vec<String>) {
    let mut l1 = vec![];
    let mut l2 = vec![];
    crate::alloc::sut(|| cactus::run(prog, mk, har_log(&mut l1), on_step));
    let mut nop = |_: usize| {};
    crate::alloc::sut(|| stdrc::run(prog, mk, har_log(&mut l2), &mut nop));
    (l1, l2)
}

fn har_log(l: &mut Vec<String>) -> &mut Vec<String> {
    l
}

/// Run a typed program on both families; returns (equal, step, cactus line, std line, observations).
pub fn run_both(ty: u32, prog: &[T], on_step: &mut dyn FnMut(usize)) -> (bool, usize, String, String, usize) {
    let (l1, l2) = match ty {
        0 => both(prog, &|_| (), on_step),
        1 => both(prog, &|k| k as u8, on_step),
        2 => both(prog, &|k| if k == 0 { f64::NAN } else { k as f64 }, on_step),
        3 => both(prog, &|k| Al64(k as u8), on_step),
        4 => both(prog, &|k| Al32([k as u8, 1, 2]), on_step),
        5 => both(prog, &|k| [k as u64; 40], on_step),
        6 => both(prog, &|k| (k as u8, 7u64 + k as u64), on_step),
        7 => both(prog, &|k| format!("s{k}"), on_step),
        8 => both(prog, &|k| Box::new(k), on_step),
        9 => both(prog, &|_| Zst, on_step),
        11 => both(prog, &|k| Spy(k), on_step),
        12 => both(prog, &|k| k as u16, on_step),
        13 => both(prog, &|k| Al16(k as u64), on_step),
        14 => both(prog, &|k| Packed(k as u8, 7 + k as u32), on_step),
        15 => both(prog, &|k| [k as u8; 5000], on_step),
        16 => both(prog, &|k| Al4096(k as u8), on_step),
        17 => both(prog, &|k| Named(k), on_step),
        _ => both(prog, &|k| NanField { tag: k as u8, x: if k == 0 { f32::NAN } else { 1.0 } }, on_step),
    };
    let _ = har(|| ());
    let obs = l1.iter().filter(|s| !s.starts_with('#')).count();
    if l1 == l2 {
        return (true, 0, String::new(), String::new(), obs);
    }
    let i = l1.iter().zip(l2.iter()).position(|(x, y)| x != y).unwrap_or(l1.len().min(l2.len()));
    let step = l1[..i.min(l1.len())].iter().rev().find(|s| s.starts_with('#')).map(|s| s[1..].parse().unwrap_or(0)).unwrap_or(0);
    (false, step, l1.get(i).cloned().unwrap_or("<end of log>".into()), l2.get(i).cloned().unwrap_or("<end of log>".into()), obs)
}
