//! C15: big orphaned groups reclaimed on a small fixed stack, with the trace
//! counters of the verif hook. Runs in a child process (a stack overflow kills the
//! child, not the driver); the arena is off (counting only).

use cactusref::{verif, Adopt, Rc};
use std::cell::RefCell;
use std::sync::atomic::{AtomicUsize, Ordering::Relaxed};

static DESTROYED: AtomicUsize = AtomicUsize::new(0);
static DOUBLE: AtomicUsize = AtomicUsize::new(0);

pub struct Big {
    id: usize,
    seen: &'static [std::sync::atomic::AtomicU8],
    slots: RefCell<Vec<Rc<Big>>>,
}

impl Clone for Big {
    fn clone(&self) -> Big {
        // make_mut is only ever called here on a handle that is the sole strong handle
        unreachable!("the value of a uniquely held object was cloned")
    }
}

/// How the last outside handle is given up: 0 drop, 1 try_unwrap, 2 make_mut with a Weak
/// outstanding (the value is moved to a new box), then drop.
pub static GIVE: AtomicUsize = AtomicUsize::new(0);

/// C16 on big groups: from destructor number DEAD_AT on, every destructor clones (1) or
/// drops (2) the handles its value stores; they all name members of the dying group.
pub static DEAD_ACT: AtomicUsize = AtomicUsize::new(0);
pub static DEAD_AT: AtomicUsize = AtomicUsize::new(0);
static ORD: AtomicUsize = AtomicUsize::new(0);
/// C01/C03 at sizes the history simulator cannot hold: id of a member that is held from
/// outside while the main handle is released (usize::MAX: none), and what had been
/// destroyed (plus 1 if the held handle's count was wrong) when only that handle was left.
pub static HOLD_ID: AtomicUsize = AtomicUsize::new(usize::MAX);
pub static HELD_DESTROYED: AtomicUsize = AtomicUsize::new(0);

impl Drop for Big {
    fn drop(&mut self) {
        if self.seen[self.id].swap(1, Relaxed) != 0 {
            DOUBLE.fetch_add(1, Relaxed);
        }
        DESTROYED.fetch_add(1, Relaxed);
        let act = DEAD_ACT.load(Relaxed);
        if act != 0 {
            let ord = ORD.fetch_add(1, Relaxed);
            if ord >= DEAD_AT.load(Relaxed) {
                let mut slots = std::mem::take(&mut *self.slots.borrow_mut());
                if act == 1 {
                    for h in slots.iter() {
                        let c = Rc::clone(h);
                        // the specified result is a process abort inside the call
                        let line = format!("{{\"type\":\"dead-clone-returned\",\"ord\":{ord},\"id\":{},\"target\":{},\"strong\":{}}}\n", self.id, c.id, Rc::strong_count(&c));
                        unsafe {
                            extern "C" {
                                fn write(fd: i32, buf: *const u8, n: usize) -> isize;
                            }
                            write(1, line.as_ptr(), line.len());
                        }
                        unsafe { crate::alloc::_exit(42) };
                    }
                } else if act == 3 {
                    // `a.clone_from(&b)` where a and b are two handles to the same dying member
                    // (a is a bitwise alias that is never dropped): a clone by another door
                    for h in slots.iter() {
                        let mut a = std::mem::ManuallyDrop::new(unsafe { std::ptr::read(h) });
                        (*a).clone_from(h);
                        let line = format!("{{\"type\":\"dead-clone-returned\",\"ord\":{ord},\"id\":{},\"target\":{},\"strong\":{}}}\n", self.id, h.id, Rc::strong_count(h));
                        unsafe {
                            extern "C" {
                                fn write(fd: i32, buf: *const u8, n: usize) -> isize;
                            }
                            write(1, line.as_ptr(), line.len());
                        }
                        unsafe { crate::alloc::_exit(42) };
                    }
                } else {
                    while let Some(h) = slots.pop() {
                        drop(h);
                    }
                }
            }
        }
    }
}

fn link(owner: &Rc<Big>, target: Rc<Big>, same_handle_noise: bool) {
    unsafe { Rc::adopt_unchecked(owner, &target) };
    if same_handle_noise {
        unsafe { Rc::adopt_unchecked(owner, owner) };
    }
    owner.slots.borrow_mut().push(target);
}

pub struct ScaleOut {
    pub n: usize,
    pub edges: usize,
    pub destroyed: usize,
    pub double: usize,
    pub trace_calls: usize,
    pub pops: usize,
    pub visits: usize,
    pub scanned: usize,
    pub build_us: u128,
    pub drop_us: u128,
    /// functional observations on big numbers (counts before the drop, Weak handles after it)
    pub count_errors: usize,
}

/// Build the shape so that exactly one outside handle remains (every other
/// original handle is *moved* into its predecessor's value as the chain edge
/// i -> i+1, so that no drop and hence no trace happens while building), drop it,
/// measure that single drop.
pub fn run(shape: &str, n: usize, chords: usize, selfsame_every: usize, seed: u64) -> ScaleOut {
    let seen: &'static [std::sync::atomic::AtomicU8] = Box::leak((0..n).map(|_| std::sync::atomic::AtomicU8::new(0)).collect::<Vec<_>>().into_boxed_slice());
    DESTROYED.store(0, Relaxed);
    DOUBLE.store(0, Relaxed);
    let t0 = std::time::Instant::now();
    let mut rng = crate::gen::Rng(seed);
    let mut objs: Vec<Option<Rc<Big>>> = (0..n).map(|id| Some(Rc::new(Big { id, seen, slots: RefCell::new(Vec::new()) }))).collect();
    let hold = HOLD_ID.load(Relaxed);
    let held_weak = if hold < n { Some(Rc::downgrade(objs[hold].as_ref().unwrap())) } else { None };
    // one member may be held from outside while the main handle is released (nothing may
    // die then), and released afterwards (everything must die then)
    let release = |keep: Rc<Big>| {
        let before = held_weak.as_ref().map_or(0, |w| w.strong_count());
        let held = held_weak.as_ref().and_then(|w| w.upgrade());
        match GIVE.load(Relaxed) {
            1 => match Rc::try_unwrap(keep) {
                Ok(v) => drop(v),
                Err(h) => drop(h),
            },
            2 => {
                let mut keep = keep;
                let w = Rc::downgrade(&keep);
                let _ = Rc::make_mut(&mut keep);
                drop(w);
                drop(keep);
            }
            _ => drop(keep),
        }
        if let Some(x) = held {
            // the held member gained our handle; member 0 lost the main handle
            let expect = if x.id == 0 { before } else { before + 1 };
            HELD_DESTROYED.store(DESTROYED.load(Relaxed) + usize::from(held_weak.as_ref().unwrap().strong_count() != expect), Relaxed);
            drop(x);
        }
    };
    let mut edges = 0usize;
    let noise = |i: usize| selfsame_every > 0 && i % selfsame_every == 0;
    let at = |objs: &Vec<Option<Rc<Big>>>, i: usize| -> Rc<Big> { Rc::clone(objs[i].as_ref().unwrap()) };
    // the mutual star has no chain: the hub holds every peer's original handle and every
    // peer adopts the hub back, so each peer has exactly one adopter
    // a hub that owns (and has adopted) every other object and is held by one handle only:
    // the shape whose sole handle can be given up through try_unwrap / make_mut
    if shape == "hubonly" {
        for j in 1..n {
            let t = objs[j].take().unwrap();
            link(objs[0].as_ref().unwrap(), t, false);
            edges += 1;
        }
        let keep = objs[0].take().unwrap();
        drop(objs);
        let build_us = t0.elapsed().as_micros();
        verif::reset();
        let t1 = std::time::Instant::now();
        release(keep);
        let drop_us = t1.elapsed().as_micros();
        let c = verif::counters();
        return ScaleOut { n, edges, destroyed: DESTROYED.load(Relaxed), double: DOUBLE.load(Relaxed), trace_calls: c[0], pops: c[1], visits: c[2], scanned: c[3], build_us, drop_us, count_errors: 0 };
    }
    if shape == "mstar" {
        for j in 1..n {
            let t = at(&objs, 0);
            link(objs[j].as_ref().unwrap(), t, false);
            edges += 1;
        }
        for j in 1..n {
            let t = objs[j].take().unwrap();
            link(objs[0].as_ref().unwrap(), t, noise(j));
            edges += 1;
        }
        let keep = objs[0].take().unwrap();
        drop(objs);
        let build_us = t0.elapsed().as_micros();
        verif::reset();
        let t1 = std::time::Instant::now();
        release(keep);
        let drop_us = t1.elapsed().as_micros();
        let c = verif::counters();
        return ScaleOut { n, edges, destroyed: DESTROYED.load(Relaxed), double: DOUBLE.load(Relaxed), trace_calls: c[0], pops: c[1], visits: c[2], scanned: c[3], build_us, drop_us, count_errors: 0 };
    }
    // 1. all edges that are made through clones
    match shape {
        "clique" => {
            for i in 0..n {
                for j in 0..n {
                    if i != j && j != i + 1 {
                        let t = at(&objs, j);
                        link(objs[i].as_ref().unwrap(), t, false);
                        edges += 1;
                    }
                }
            }
        }
        _ => {
            // closing edge of the ring ("tail": only the first 8 objects form the ring,
            // the rest is a long acyclic chain hanging off it; "comb": a ring of n/2 objects
            // each with one leaf)
            if n > 1 {
                let closer = if shape == "tail" { 7.min(n - 1) } else { n - 1 };
                let t = at(&objs, 0);
                link(objs[closer].as_ref().unwrap(), t, false);
                edges += 1;
            } else {
                let t = at(&objs, 0);
                link(objs[0].as_ref().unwrap(), t, false);
                edges += 1;
            }
            for _ in 0..(if shape == "multi" || shape == "manyweak" { 0 } else { chords }) {
                let (a, b) = (rng.below(n), rng.below(n));
                let t = at(&objs, b);
                link(objs[a].as_ref().unwrap(), t, false);
                edges += 1;
            }
            if shape == "tree" {
                // binary tree of adoptions on top of the chain: i adopts 2i+1 and 2i+2
                for i in 0..n {
                    for c in [2 * i + 1, 2 * i + 2] {
                        if c < n && c != i + 1 {
                            let t = at(&objs, c);
                            link(objs[i].as_ref().unwrap(), t, false);
                            edges += 1;
                        }
                    }
                }
            }
            if shape == "cliques" {
                // ring of small cliques: blocks of 8 fully connected, chained into a ring
                for b in (0..n).step_by(8) {
                    let hi = (b + 8).min(n);
                    for i in b..hi {
                        for j in b..hi {
                            if i != j && j != i + 1 {
                                let t = at(&objs, j);
                                link(objs[i].as_ref().unwrap(), t, false);
                                edges += 1;
                            }
                        }
                    }
                }
            }
            if shape == "multi" {
                // few objects, huge multiplicity: `chords` parallel adoptions 0 -> 1
                if n > 1 {
                    for _ in 0..chords {
                        let t = at(&objs, 1);
                        link(objs[0].as_ref().unwrap(), t, false);
                        edges += 1;
                    }
                }
            }
            if shape == "weakring" {
                // every member also holds a Weak to the member after next (stored outside the
                // value is impossible here, so it is leaked into the payload's handle list
                // as a strong clone-free Weak kept alive until the teardown)
            }
            if shape == "star" {
                for j in 1..n {
                    let t = at(&objs, j);
                    link(objs[0].as_ref().unwrap(), t, false);
                    edges += 1;
                }
            }
            if shape == "ring+skip2" {
                for i in 0..n {
                    let t = at(&objs, (i + 2) % n);
                    link(objs[i].as_ref().unwrap(), t, false);
                    edges += 1;
                }
            }
            if shape == "ring+self" {
                for i in (0..n).step_by(5) {
                    let t = at(&objs, i);
                    link(objs[i].as_ref().unwrap(), t, false);
                    edges += 1;
                }
            }
        }
    }
    // 2. the chain edges i -> i+1, by moving the original handle of i+1
    for i in (0..n.saturating_sub(1)).rev() {
        let t = objs[i + 1].take().unwrap();
        link(objs[i].as_ref().unwrap(), t, noise(i));
        edges += 1;
    }
    let keep = objs[0].take().unwrap();
    drop(objs);
    // big numbers, functionally: exact counts with 10^4..10^6 handles / Weak handles
    let mut count_errors = 0usize;
    let mut weaks: Vec<cactusref::Weak<Big>> = Vec::new();
    if shape == "multi" && n > 1 {
        // object 1 is held `chords` times by object 0 (recorded) plus once by the chain
        let one = Rc::clone(&keep.slots.borrow()[0]);
        let id1 = one.id;
        let expect = keep.slots.borrow().iter().filter(|h| h.id == id1).count() + 1;
        if Rc::strong_count(&one) != expect {
            count_errors += 1;
        }
        drop(one);
    }
    if shape == "manyweak" {
        // `chords` Weak handles to object 0, a third of them clones of clones
        for i in 0..chords {
            let w = if i % 3 == 2 && !weaks.is_empty() { weaks[i / 2].clone() } else { Rc::downgrade(&keep) };
            weaks.push(w);
        }
        if Rc::weak_count(&keep) != chords || weaks.last().map_or(false, |w| w.weak_count() != chords || w.strong_count() != Rc::strong_count(&keep)) {
            count_errors += 1;
        }
    }
    let build_us = t0.elapsed().as_micros();
    verif::reset();
    let t1 = std::time::Instant::now();
    release(keep);
    let drop_us = t1.elapsed().as_micros();
    let c = verif::counters();
    for (i, w) in weaks.iter().enumerate() {
        if w.upgrade().is_some() || w.strong_count() != 0 || w.weak_count() != 0 {
            count_errors += 1;
        }
        if i > 64 {
            break;
        }
    }
    drop(weaks);
    ScaleOut { n, edges, destroyed: DESTROYED.load(Relaxed), double: DOUBLE.load(Relaxed), trace_calls: c[0], pops: c[1], visits: c[2], scanned: c[3], build_us, drop_us, count_errors }
}

/// Long-lived objects across very many traces. Witness rings are traced once (which
/// leaves whatever per-object state a trace leaves), then stay untouched while a filler
/// object is traced again and again; the last outside handle of each witness is released
/// exactly when the number of traces since its own reaches 2^pow + off for the powers up to
/// `max_pow` and off in -3..=3 - the distances at which a narrow per-trace counter or stamp
/// would collide. Each release must destroy the witness ring in full.
pub struct SoakOut {
    pub traces: u64,
    pub witnesses: usize,
    pub failures: Vec<(u32, i64, &'static str)>,
    pub wall_ms: u128,
}

pub fn soak(max_pow: u32) -> SoakOut {
    let t0 = std::time::Instant::now();
    let pows: Vec<u32> = [8u32, 16, 24, 32].into_iter().filter(|p| *p <= max_pow).collect();
    let nw = pows.len() * 7;
    let seen: &'static [std::sync::atomic::AtomicU8] = Box::leak((0..2 * nw + 1).map(|_| std::sync::atomic::AtomicU8::new(0)).collect::<Vec<_>>().into_boxed_slice());
    let mk = |id: usize| Rc::new(Big { id, seen, slots: RefCell::new(Vec::new()) });
    // filler: a self-adopting object; clone + drop of a handle to it is one trace
    let f = mk(2 * nw);
    let fc = Rc::clone(&f);
    link(&f, fc, false);
    verif::reset();
    let traces = || verif::counters()[0] as u64;
    struct W {
        pow: u32,
        off: i64,
        b: Option<Rc<Big>>,
        wa: cactusref::Weak<Big>,
        wb: cactusref::Weak<Big>,
        ids: (usize, usize),
        due: u64,
    }
    let mut ws: Vec<W> = vec![];
    let mut k = 0usize;
    for &pow in &pows {
        for off in -3i64..=3 {
            let a = mk(2 * k);
            let b = mk(2 * k + 1);
            link(&a, Rc::clone(&b), false);
            link(&b, Rc::clone(&a), false);
            let (wa, wb) = (Rc::downgrade(&a), Rc::downgrade(&b));
            let at = traces();
            drop(a); // this witness's own trace: index `at`, visits both members, b is held outside
            debug_assert_eq!(traces(), at + 1);
            // keep releases two traces apart so that a filler trace separates them
            ws.push(W { pow, off, b: Some(b), wa, wb, ids: (2 * k, 2 * k + 1), due: ((at as i64) + (1i64 << pow) + off) as u64 + 0 });
            k += 1;
        }
    }
    ws.sort_by_key(|w| w.due);
    let mut failures = vec![];
    for w in ws.iter_mut() {
        // fill up to the due index; the release itself is the trace with that index
        let mut now = traces();
        while now < w.due {
            let burst = (w.due - now).min(1 << 16);
            for _ in 0..burst {
                drop(Rc::clone(&f));
            }
            now = traces();
        }
        if now != w.due {
            // two witnesses due at the same index: release this one late (still counted)
        }
        let before = (seen[w.ids.0].load(Relaxed), seen[w.ids.1].load(Relaxed));
        drop(w.b.take());
        let after = (seen[w.ids.0].load(Relaxed), seen[w.ids.1].load(Relaxed));
        if before != (0, 0) {
            failures.push((w.pow, w.off, "witness destroyed before its last outside handle was released"));
        } else if after != (1, 1) || w.wa.upgrade().is_some() || w.wb.upgrade().is_some() {
            failures.push((w.pow, w.off, "witness ring not destroyed by the release of its last outside handle"));
        }
    }
    let total = traces();
    drop(f);
    SoakOut { traces: total, witnesses: nw, failures, wall_ms: t0.elapsed().as_millis() }
}

/// C15, history independence of cost: what a small group costs (bytes requested from the
/// allocator, allocations, worklist pops, entries scanned) must not depend on how big the
/// groups were that the same process traced and collected before.
pub struct SmallCost {
    pub bytes: usize,
    pub allocs: usize,
    pub pops: usize,
    pub scanned: usize,
    pub destroyed: usize,
}

fn small_cost(k: usize, seen: &'static [std::sync::atomic::AtomicU8], base: usize) -> SmallCost {
    // a fully recorded k-ring with one outside handle; one trace that finds it reachable
    // (a clone is dropped while the outside handle exists), then the collecting drop
    let objs: Vec<Rc<Big>> = (0..k).map(|i| Rc::new(Big { id: base + i, seen, slots: RefCell::new(Vec::new()) })).collect();
    for i in 0..k {
        link(&objs[i], Rc::clone(&objs[(i + 1) % k]), false);
    }
    let mut it = objs.into_iter();
    let keep = it.next().unwrap();
    drop(it);
    let d0 = DESTROYED.load(Relaxed);
    verif::reset();
    let (b0, a0) = (crate::alloc::alloc_bytes(), crate::alloc::alloc_count());
    drop(Rc::clone(&keep));
    drop(keep);
    let c = verif::counters();
    SmallCost { bytes: crate::alloc::alloc_bytes() - b0, allocs: crate::alloc::alloc_count() - a0, pops: c[1], scanned: c[3], destroyed: DESTROYED.load(Relaxed) - d0 }
}

pub fn after_big(shape: &str, n: usize, seed: u64) -> (Vec<SmallCost>, Vec<SmallCost>, ScaleOut) {
    let seen: &'static [std::sync::atomic::AtomicU8] = Box::leak((0..256).map(|_| std::sync::atomic::AtomicU8::new(0)).collect::<Vec<_>>().into_boxed_slice());
    let sizes = [2usize, 8, 40];
    let mut base = 0;
    let mut before = vec![];
    for _rep in 0..2 {
        for &k in &sizes {
            before.push(small_cost(k, seen, base));
            base += k;
        }
    }
    let big = run(shape, n, if shape == "ring" { n } else { 0 }, 0, seed);
    let mut after = vec![];
    for &k in &sizes {
        after.push(small_cost(k, seen, base));
        base += k;
    }
    (before, after, big)
}

/// Very many handles to ONE object: a fully recorded ring a <-> b, 2^pow + 3 extra strong
/// handles to `a` taken through the raw API, then handles to `a` and `b` are released.
/// Counts must be exact and nothing may die while the extra handles exist.
pub struct HugeOut {
    pub pow: u32,
    pub count_errors: usize,
    pub destroyed_while_held: usize,
    pub ms: u128,
}

pub fn huge_count(pow: u32) -> HugeOut {
    let t0 = std::time::Instant::now();
    let seen: &'static [std::sync::atomic::AtomicU8] = Box::leak((0..2).map(|_| std::sync::atomic::AtomicU8::new(0)).collect::<Vec<_>>().into_boxed_slice());
    let a = Rc::new(Big { id: 0, seen, slots: RefCell::new(Vec::new()) });
    let b = Rc::new(Big { id: 1, seen, slots: RefCell::new(Vec::new()) });
    link(&a, Rc::clone(&b), false);
    link(&b, Rc::clone(&a), false);
    let (wa, wb) = (Rc::downgrade(&a), Rc::downgrade(&b));
    let extra: usize = (1usize << pow) + 3;
    let p = Rc::into_raw(Rc::clone(&a));
    for _ in 1..extra {
        unsafe { Rc::increment_strong_count(p) };
    }
    let mut count_errors = 0;
    let mut check = |want_a: usize, want_b: usize| {
        if wa.strong_count() != want_a || wb.strong_count() != want_b {
            count_errors += 1;
        }
    };
    check(2 + extra, 2);
    drop(Rc::clone(&a)); // a trace that must find the ring reachable
    check(2 + extra, 2);
    drop(b); // b is now owned by a only
    check(2 + extra, 1);
    drop(a); // a: the handle in b plus the raw ones
    check(1 + extra, 1);
    unsafe { Rc::decrement_strong_count(p) };
    check(extra, 1);
    let destroyed_while_held = seen.iter().filter(|s| s.load(Relaxed) != 0).count() + usize::from(wa.upgrade().is_none()) + usize::from(wb.upgrade().is_none());
    check(extra, 1);
    // the remaining raw handles are leaked on purpose (releasing them would be 2^pow traces)
    HugeOut { pow, count_errors, destroyed_while_held, ms: t0.elapsed().as_millis() }
}

/// Nested teardowns of big groups: group i is a fully recorded ring of sizes[i] objects;
/// one of its members stores (unrecorded) the last outside handle of group i+1, so the
/// collection of group i releases group i+1 from inside a destructor, and so on.
/// Everything must be destroyed exactly once and every allocation returned.
pub struct NestedOut {
    pub n: usize,
    pub destroyed: usize,
    pub double: usize,
    pub leaked_blocks: isize,
}

fn ring_of(k: usize, base: usize, seen: &'static [std::sync::atomic::AtomicU8]) -> Vec<Rc<Big>> {
    let objs: Vec<Rc<Big>> = (0..k).map(|i| Rc::new(Big { id: base + i, seen, slots: RefCell::new(Vec::new()) })).collect();
    for i in 0..k {
        link(&objs[i], Rc::clone(&objs[(i + 1) % k]), false);
    }
    objs
}

/// The same ring with exactly one outside handle, built without releasing any handle (the
/// original handle of member i+1 is moved into member i), so that building costs no trace.
fn ring_keep(k: usize, base: usize, seen: &'static [std::sync::atomic::AtomicU8]) -> Rc<Big> {
    let mut objs: Vec<Option<Rc<Big>>> = (0..k).map(|i| Some(Rc::new(Big { id: base + i, seen, slots: RefCell::new(Vec::new()) }))).collect();
    let first = Rc::clone(objs[0].as_ref().unwrap());
    link(objs[k - 1].as_ref().unwrap(), first, false);
    for i in (0..k - 1).rev() {
        let t = objs[i + 1].take().unwrap();
        link(objs[i].as_ref().unwrap(), t, false);
    }
    objs[0].take().unwrap()
}

pub fn nested(sizes: &[usize]) -> NestedOut {
    let n: usize = sizes.iter().sum();
    let seen: &'static [std::sync::atomic::AtomicU8] = Box::leak((0..n).map(|_| std::sync::atomic::AtomicU8::new(0)).collect::<Vec<_>>().into_boxed_slice());
    DESTROYED.store(0, Relaxed);
    DOUBLE.store(0, Relaxed);
    let live0 = crate::alloc::live_blocks() as isize;
    {
        let mut next: Option<Rc<Big>> = None;
        let mut base = n;
        for &k in sizes.iter().rev() {
            base -= k;
            let keep = ring_keep(k, base, seen);
            if let Some(h) = next.take() {
                // some member of this ring (reached through the chain of stored handles)
                // holds, unrecorded, the last outside handle of the next ring
                let mut m = Rc::clone(&keep);
                for _ in 0..(k / 2).min(64) {
                    let nx = Rc::clone(&m.slots.borrow()[0]);
                    m = nx;
                }
                m.slots.borrow_mut().push(h);
                // (dropping the walking clone is one trace over this ring: linear)
            }
            next = Some(keep);
        }
        drop(next);
    }
    NestedOut { n, destroyed: DESTROYED.load(Relaxed), double: DOUBLE.load(Relaxed), leaked_blocks: crate::alloc::live_blocks() as isize - live0 }
}

thread_local! {
    static ARENA: RefCell<Vec<Rc<Big>>> = const { RefCell::new(Vec::new()) };
    static LATE: RefCell<Vec<Rc<Big>>> = const { RefCell::new(Vec::new()) };
}

/// The last outside handle of a group lives in a thread-local of the program and is
/// released by that thread-local's destructor when the thread exits - before or after
/// thread-locals registered later (e.g. by a library on its first collection).
pub fn tls_exit(early: bool) -> NestedOut {
    let n = 4 + 3;
    let seen: &'static [std::sync::atomic::AtomicU8] = Box::leak((0..n).map(|_| std::sync::atomic::AtomicU8::new(0)).collect::<Vec<_>>().into_boxed_slice());
    DESTROYED.store(0, Relaxed);
    DOUBLE.store(0, Relaxed);
    let h = std::thread::spawn(move || {
        crate::alloc::sut(|| {
            if early {
                // register the program's thread-local (and its destructor) before anything
                // the library might register at its first collection
                ARENA.with(|a| a.borrow_mut().reserve(1));
            }
            let warm = ring_of(3, 4, seen);
            drop(warm); // the thread's first collection
            let g = ring_of(4, 0, seen);
            let keep = g.into_iter().next().unwrap();
            if early {
                ARENA.with(|a| a.borrow_mut().push(keep));
            } else {
                LATE.with(|a| a.borrow_mut().push(keep));
            }
        })
    });
    let _ = h.join();
    NestedOut { n, destroyed: DESTROYED.load(Relaxed), double: DOUBLE.load(Relaxed), leaked_blocks: 0 }
}

/// For each sampled member X of a strongly connected, fully recorded shape: hold X from
/// outside, release the main handle (nothing may be destroyed: X reaches everything), then
/// release X (everything must be destroyed, once).
pub fn held_sweep(shape: &str, n: usize, chords: usize, seed: u64, samples: usize) -> Vec<(usize, usize, usize, usize)> {
    let mut rng = crate::gen::Rng(seed ^ 0x68656c64);
    let ids: Vec<usize> = if n <= samples { (0..n).collect() } else { (0..samples).map(|_| rng.below(n)).collect() };
    let mut bad = vec![];
    for x in ids {
        HOLD_ID.store(x, Relaxed);
        HELD_DESTROYED.store(0, Relaxed);
        let o = run(shape, n, chords, 0, seed);
        let early = HELD_DESTROYED.load(Relaxed);
        if early != 0 || o.destroyed != n || o.double != 0 {
            bad.push((x, early, o.destroyed, o.double));
            if bad.len() >= 4 {
                break;
            }
        }
    }
    HOLD_ID.store(usize::MAX, Relaxed);
    bad
}

/// Very many parallel adoptions of ONE pair: a <-> b fully recorded, `a` owning 2^pow + 3
/// strong handles to `b` (taken through the raw API, each recorded with adopt_unchecked).
/// When the outside handles are gone the pair must be collected.
pub struct HugeAdoptOut {
    pub pow: u32,
    pub destroyed: usize,
    pub count_errors: usize,
    pub ms: u128,
}

pub fn huge_adopt(pow: u32) -> HugeAdoptOut {
    let t0 = std::time::Instant::now();
    let seen: &'static [std::sync::atomic::AtomicU8] = Box::leak((0..2).map(|_| std::sync::atomic::AtomicU8::new(0)).collect::<Vec<_>>().into_boxed_slice());
    DESTROYED.store(0, Relaxed);
    let a = Rc::new(Big { id: 0, seen, slots: RefCell::new(Vec::new()) });
    let b = Rc::new(Big { id: 1, seen, slots: RefCell::new(Vec::new()) });
    link(&b, Rc::clone(&a), false);
    let n: usize = (1usize << pow) + 3;
    let pb = Rc::as_ptr(&b);
    for _ in 0..n {
        unsafe {
            Rc::increment_strong_count(pb);
            Rc::adopt_unchecked(&a, &b);
        }
    }
    let (wa, wb) = (Rc::downgrade(&a), Rc::downgrade(&b));
    let mut count_errors = 0;
    if wb.strong_count() != n + 1 || wa.strong_count() != 2 {
        count_errors += 1;
    }
    drop(b);
    if wb.strong_count() != n || seen[1].load(Relaxed) != 0 {
        count_errors += 1;
    }
    drop(a);
    let destroyed = DESTROYED.load(Relaxed);
    if destroyed == 2 && (wa.upgrade().is_some() || wb.upgrade().is_some() || wa.strong_count() != 0 || wb.strong_count() != 0) {
        count_errors += 1;
    }
    HugeAdoptOut { pow, destroyed, count_errors, ms: t0.elapsed().as_millis() }
}

/// Several threads, each with graphs of its own (the handle types are neither Send nor
/// Sync, so nothing is shared between them except what the library itself keeps in
/// statics): every thread builds fully recorded rings with chords, traces each a few
/// times while holding it (nothing may die) and releases it (everything must die, once).
/// This is a stress run on real threads: which thread runs when is NOT decided by the
/// simulator, so a failure is a true positive that may not replay exactly.
pub fn threads(t: usize, rounds: usize, seed: u64) -> Vec<(usize, usize, String)> {
    let hs: Vec<_> = (0..t)
        .map(|ti| {
            std::thread::spawn(move || {
                let mut rng = crate::gen::Rng(seed ^ (ti as u64 + 1).wrapping_mul(0x9E3779B97F4A7C15));
                let seen: &'static [std::sync::atomic::AtomicU8] = Box::leak((0..8).map(|_| std::sync::atomic::AtomicU8::new(0)).collect::<Vec<_>>().into_boxed_slice());
                for r in 0..rounds {
                    let k = 2 + rng.below(6);
                    for s in seen.iter() {
                        s.store(0, Relaxed);
                    }
                    let objs = ring_of(k, 0, seen);
                    for _ in 0..rng.below(4) {
                        let (a, b) = (rng.below(k), rng.below(k));
                        link(&objs[a], Rc::clone(&objs[b]), false);
                    }
                    let mut it = objs.into_iter();
                    let keep = it.next().unwrap();
                    drop(it);
                    for _ in 0..3 {
                        drop(Rc::clone(&keep));
                        let dead = seen.iter().take(k).filter(|s| s.load(Relaxed) != 0).count();
                        if dead != 0 {
                            return Some((ti, r, format!("{dead} of {k} members of a held ring were destroyed by a trace")));
                        }
                    }
                    drop(keep);
                    let dead = seen.iter().take(k).filter(|s| s.load(Relaxed) == 1).count();
                    if dead != k {
                        return Some((ti, r, format!("{dead} of {k} members died when the ring was orphaned")));
                    }
                }
                None
            })
        })
        .collect();
    let mut bad = vec![];
    for (ti, h) in hs.into_iter().enumerate() {
        match h.join() {
            Ok(Some(b)) => bad.push(b),
            Ok(None) => {}
            Err(_) => bad.push((ti, 0, "the thread panicked inside the library".to_string())),
        }
    }
    bad
}

/// C15, history of ONE object: a hub adopts `n` leaves and gives them all up again
/// (unadopt + release), then forms a fully recorded 2-ring with a partner. A trace that
/// starts at the former hub must cost what it costs for a fresh ring member.
/// Returns (bytes, allocations) requested by one non-final release of a handle to it.
pub fn former_hub_cost(n: usize) -> (usize, usize, usize) {
    let seen: &'static [std::sync::atomic::AtomicU8] = Box::leak((0..n + 2).map(|_| std::sync::atomic::AtomicU8::new(0)).collect::<Vec<_>>().into_boxed_slice());
    let hub = Rc::new(Big { id: 0, seen, slots: RefCell::new(Vec::new()) });
    for i in 0..n {
        let leaf = Rc::new(Big { id: 2 + i, seen, slots: RefCell::new(Vec::new()) });
        link(&hub, leaf, false);
    }
    loop {
        let Some(leaf) = hub.slots.borrow_mut().pop() else { break };
        Rc::unadopt(&hub, &leaf);
        drop(leaf);
    }
    let partner = Rc::new(Big { id: 1, seen, slots: RefCell::new(Vec::new()) });
    link(&hub, Rc::clone(&partner), false);
    link(&partner, Rc::clone(&hub), false);
    let (b0, a0) = (crate::alloc::alloc_bytes(), crate::alloc::alloc_count());
    drop(Rc::clone(&hub));
    let cost = (crate::alloc::alloc_bytes() - b0, crate::alloc::alloc_count() - a0);
    let d0 = DESTROYED.load(Relaxed);
    drop(partner);
    drop(hub);
    (cost.0, cost.1, DESTROYED.load(Relaxed) - d0)
}

/// Fault: an allocation made by the library during the release of the last outside handle
/// of a fully recorded ring (with chords) is refused. The process may die (that is what the
/// allocation-error handler does); if the release returns, the ring must have been
/// collected all the same - it must not be silently kept.
pub fn alloc_fail(k: usize, chords: usize, at: isize, seed: u64) -> (usize, usize, bool) {
    let seen: &'static [std::sync::atomic::AtomicU8] = Box::leak((0..k).map(|_| std::sync::atomic::AtomicU8::new(0)).collect::<Vec<_>>().into_boxed_slice());
    DESTROYED.store(0, Relaxed);
    let mut rng = crate::gen::Rng(seed);
    let objs = ring_of(k, 0, seen);
    for _ in 0..chords {
        let (a, b) = (rng.below(k), rng.below(k));
        link(&objs[a], Rc::clone(&objs[b]), false);
    }
    let mut it = objs.into_iter();
    let keep = it.next().unwrap();
    drop(it);
    crate::alloc::fail_at(at);
    drop(keep);
    let fired = crate::alloc::fail_fired();
    crate::alloc::fail_at(-1);
    (DESTROYED.load(Relaxed), k, fired)
}
