//! The allocator seam: layout scheduler, use-after-free detector, accountant.
//!
//! Library-domain allocations (everything cactusref, hashbrown and Vec allocate
//! while the SUT flag is set) are served from a fixed-address arena, one block per
//! page run, at a placement drawn from the layout PRNG. Freed blocks are PROT_NONE
//! and never reused inside a run, so any later access by the library faults.
//! Harness-domain allocations go to the system allocator and never influence a
//! decision.

use std::alloc::{GlobalAlloc, Layout, System};
use std::sync::atomic::{AtomicBool, AtomicU64, AtomicUsize, Ordering::Relaxed};

extern "C" {
    fn mmap(addr: *mut u8, len: usize, prot: i32, flags: i32, fd: i32, off: i64) -> *mut u8;
    fn mprotect(addr: *mut u8, len: usize, prot: i32) -> i32;
    fn sigaction(sig: i32, act: *const SigAction, old: *mut SigAction) -> i32;
    fn sigaltstack(ss: *const StackT, old: *mut StackT) -> i32;
    fn write(fd: i32, buf: *const u8, n: usize) -> isize;
    #[link_name = "_exit"]
    fn raw_exit(code: i32) -> !;
}

/// Leave the process at once, without running destructors or atexit handlers.
pub unsafe fn _exit(code: i32) -> ! {
    if cfg!(miri) {
        std::process::exit(code)
    }
    raw_exit(code)
}

#[repr(C)]
struct SigAction {
    handler: usize,
    mask: [u64; 16],
    flags: i32,
    restorer: usize,
}
#[repr(C)]
struct SigInfo {
    signo: i32,
    errno: i32,
    code: i32,
    _pad: i32,
    addr: usize,
}
#[repr(C)]
struct StackT {
    sp: *mut u8,
    flags: i32,
    size: usize,
}

#[cfg(target_pointer_width = "64")]
pub const BASE: usize = 0x6100_0000_0000;
/// 32-bit targets are only used under the interpreter (arena off); the value is never mapped
#[cfg(not(target_pointer_width = "64"))]
pub const BASE: usize = 0x6100_0000;
pub const PAGE: usize = 4096;
pub const PAGES: usize = 1 << 17;
const MAX_BLOCK_PAGES: usize = 64;

const FREE: u8 = 0;
const HEAD: u8 = 1;
const QUAR: u8 = 2;
const CONT: u8 = 3;

pub const EXIT_VIOLATION: i32 = 3;
pub const EXIT_HARNESS: i32 = 2;
pub const EXIT_UAF: i32 = 86;
pub const EXIT_WILD: i32 = 87;
pub const EXIT_ABORT: i32 = 85;

static SUT: AtomicBool = AtomicBool::new(false);
static READY: AtomicBool = AtomicBool::new(false);
static ARENA_ON: AtomicBool = AtomicBool::new(false);
static LSEED: AtomicU64 = AtomicU64::new(1);
static LIVE_BLOCKS: AtomicUsize = AtomicUsize::new(0);
static LIVE_BYTES: AtomicUsize = AtomicUsize::new(0);
static ALLOC_COUNT: AtomicUsize = AtomicUsize::new(0);
static ALLOC_BYTES: AtomicUsize = AtomicUsize::new(0);
static OFF_MODE: AtomicUsize = AtomicUsize::new(0);
static FAIL_AT: std::sync::atomic::AtomicIsize = std::sync::atomic::AtomicIsize::new(-1);
static FAIL_SEEN: AtomicUsize = AtomicUsize::new(0);
static FAIL_FIRED: AtomicUsize = AtomicUsize::new(0);
static RECYCLED: AtomicUsize = AtomicUsize::new(0);
static PAGE_MODE: AtomicUsize = AtomicUsize::new(0);
static FIXED_OFF: AtomicUsize = AtomicUsize::new(0);
static NEXT_PAGE: AtomicUsize = AtomicUsize::new(0);
static FREE_COUNT: AtomicUsize = AtomicUsize::new(0);
static DIGEST: AtomicU64 = AtomicU64::new(0xcbf29ce484222325);
static NTOUCHED: AtomicUsize = AtomicUsize::new(0);
/// Set while a `Weak` method is being executed by the harness (fault attribution).
pub static IN_WEAK: AtomicBool = AtomicBool::new(false);
/// Counting-only mode (arena off): library-domain blocks served by the system
/// allocator are still counted.
static COUNT_ONLY_LIVE: AtomicUsize = AtomicUsize::new(0);

/// Address-reuse mode (a per-run knob): like a real allocator, a freed block is handed
/// out again for the next request of the same size (LIFO per size class). The freed
/// page stays inaccessible until it is reused, so use-after-free detection is only lost
/// for blocks that have been reused; what is gained are bugs that need an OLD address
/// to come back (stale caches or records that are only compared, never dereferenced).
static REUSE_ON: AtomicBool = AtomicBool::new(false);
const NCLASS: usize = 64;
const CLASS_CAP: usize = 32;
static mut FREE_LIST: [[u32; CLASS_CAP]; NCLASS] = [[0; CLASS_CAP]; NCLASS];
static mut FREE_OFF: [[u16; CLASS_CAP]; NCLASS] = [[0; CLASS_CAP]; NCLASS];
static mut FREE_LEN: [u8; NCLASS] = [0; NCLASS];
static REUSED: AtomicUsize = AtomicUsize::new(0);

fn class_of(size: usize) -> Option<usize> {
    let c = (size + 15) / 16;
    if c < NCLASS {
        Some(c)
    } else {
        None
    }
}

static mut STATE: [u8; PAGES] = [0; PAGES];
static mut SIZE: [u32; PAGES] = [0; PAGES];
static mut NPG: [u8; PAGES] = [0; PAGES];
static mut ALIGN_LOG: [u8; PAGES] = [255; PAGES];
/// bumped every time a page becomes the head of a block: (address, generation) names a
/// block even when addresses are reused
static mut GEN: [u32; PAGES] = [0; PAGES];
static mut TOUCHED: [u32; PAGES] = [0; PAGES];
static mut IS_TOUCHED: [u8; PAGES] = [0; PAGES];
static mut ALT_STACK: [u8; 1 << 16] = [0; 1 << 16];

/// Callback used by the fault handler to emit the violation record. It must be
/// async-signal-safe (raw writes from static buffers only).
static FAULT_REPORT: AtomicUsize = AtomicUsize::new(0);

pub fn set_fault_reporter(f: fn(kind: &'static str, addr: usize)) {
    FAULT_REPORT.store(f as usize, Relaxed);
}

fn report(kind: &'static str, addr: usize) {
    let f = FAULT_REPORT.load(Relaxed);
    if f != 0 {
        let f: fn(&'static str, usize) = unsafe { std::mem::transmute(f) };
        f(kind, addr);
    }
}

pub fn raw_write(fd: i32, b: &[u8]) {
    let mut off = 0;
    while off < b.len() {
        let n = unsafe { write(fd, b[off..].as_ptr(), b.len() - off) };
        if n <= 0 {
            break;
        }
        off += n as usize;
    }
}

fn lrand() -> u64 {
    let mut s = LSEED.load(Relaxed);
    s = s.wrapping_add(0x9E3779B97F4A7C15);
    LSEED.store(s, Relaxed);
    let mut z = s;
    z = (z ^ (z >> 30)).wrapping_mul(0xBF58476D1CE4E5B9);
    z = (z ^ (z >> 27)).wrapping_mul(0x94D049BB133111EB);
    z ^ (z >> 31)
}

fn digest(x: u64) {
    let mut d = DIGEST.load(Relaxed);
    d = (d ^ x).wrapping_mul(0x100000001b3);
    DIGEST.store(d, Relaxed);
}

pub struct SimAlloc;

unsafe fn touch(p: usize) {
    // (a page whose quarantine was given back is handed out a second time in one execution)
    if IS_TOUCHED[p] != 0 {
        return;
    }
    IS_TOUCHED[p] = 1;
    let n = NTOUCHED.load(Relaxed);
    TOUCHED[n] = p as u32;
    NTOUCHED.store(n + 1, Relaxed);
}

unsafe impl GlobalAlloc for SimAlloc {
    unsafe fn alloc(&self, l: Layout) -> *mut u8 {
        if !SUT.load(Relaxed) {
            return System.alloc(l);
        }
        ALLOC_COUNT.fetch_add(1, Relaxed);
        ALLOC_BYTES.fetch_add(l.size(), Relaxed);
        // fault: the k-th allocation requested by library code from now on is refused
        let fa = FAIL_AT.load(Relaxed);
        if fa >= 0 {
            let c = FAIL_SEEN.fetch_add(1, Relaxed);
            if c as isize == fa {
                FAIL_FIRED.store(1, Relaxed);
                return std::ptr::null_mut();
            }
        }
        let npages = (l.size().max(1) + PAGE - 1) / PAGE;
        if !(READY.load(Relaxed) && ARENA_ON.load(Relaxed)) || npages > MAX_BLOCK_PAGES || l.align() > PAGE {
            COUNT_ONLY_LIVE.fetch_add(1, Relaxed);
            return System.alloc(l);
        }
        if REUSE_ON.load(Relaxed) && npages == 1 {
            if let Some(c) = class_of(l.size()) {
                let n = FREE_LEN[c] as usize;
                if n > 0 && lrand() % 4 != 0 {
                    let p = FREE_LIST[c][n - 1] as usize;
                    let off = FREE_OFF[c][n - 1] as usize;
                    if off % l.align() == 0 && off + l.size() <= PAGE {
                        FREE_LEN[c] = (n - 1) as u8;
                        mprotect((BASE + p * PAGE) as *mut u8, PAGE, 3);
                        STATE[p] = HEAD;
                        SIZE[p] = l.size() as u32;
                        ALIGN_LOG[p] = l.align().trailing_zeros() as u8;
                        NPG[p] = 1;
                        GEN[p] = GEN[p].wrapping_add(1);
                        LIVE_BLOCKS.fetch_add(1, Relaxed);
                        LIVE_BYTES.fetch_add(l.size(), Relaxed);
                        REUSED.fetch_add(1, Relaxed);
                        digest(0x2E05E ^ ((p as u64) << 16) ^ off as u64);
                        return (BASE + p * PAGE + off) as *mut u8;
                    }
                }
            }
        }
        // placement modes (from the layout seed): random page (default) or the next pages in
        // ascending order, the way a bump allocator clusters addresses
        let start = if PAGE_MODE.load(Relaxed) == 1 { (NEXT_PAGE.load(Relaxed) + 1) % PAGES } else { (lrand() % PAGES as u64) as usize };
        // guard mode: the block ends at the end of its last page (up to alignment) and is
        // followed by an inaccessible page, so that reading or writing past its end faults
        let guard = OFF_MODE.load(Relaxed) == 3 && npages + 1 <= MAX_BLOCK_PAGES;
        let data_pages = npages;
        let npages = if guard { npages + 1 } else { npages };
        let mut p = start;
        let mut scanned = 0usize;
        loop {
            if scanned > 2 * PAGES {
                // every page is live or quarantined (a very long run): give the quarantine
                // back once - use-after-free of the blocks freed so far is no longer caught
                // in this execution - and only then give up
                if RECYCLED.load(Relaxed) == 0 {
                    RECYCLED.store(1, Relaxed);
                    let n = NTOUCHED.load(Relaxed);
                    for i in 0..n {
                        let q = TOUCHED[i] as usize;
                        if STATE[q] == QUAR {
                            STATE[q] = FREE;
                            mprotect((BASE + q * PAGE) as *mut u8, PAGE, 3);
                        }
                    }
                    for c in 0..NCLASS {
                        FREE_LEN[c] = 0;
                    }
                    scanned = 0;
                    p = 0;
                    continue;
                }
                raw_write(2, b"HARNESS-ERROR arena exhausted\n");
                _exit(EXIT_HARNESS);
            }
            if p + npages > PAGES {
                scanned += PAGES - p;
                p = 0;
                continue;
            }
            let mut ok = true;
            for q in p..p + npages {
                if STATE[q] != FREE {
                    ok = false;
                    scanned += q - p + 1;
                    p = q + 1;
                    break;
                }
            }
            if ok {
                break;
            }
        }
        STATE[p] = HEAD;
        SIZE[p] = l.size() as u32;
        ALIGN_LOG[p] = l.align().trailing_zeros() as u8;
        NPG[p] = npages as u8;
        GEN[p] = GEN[p].wrapping_add(1);
        touch(p);
        for q in p + 1..p + npages {
            STATE[q] = CONT;
            touch(q);
        }
        LIVE_BLOCKS.fetch_add(1, Relaxed);
        LIVE_BYTES.fetch_add(l.size(), Relaxed);
        let al = l.align().max(8);
        NEXT_PAGE.store(p + npages - 1, Relaxed);
        if guard {
            mprotect((BASE + (p + data_pages) * PAGE) as *mut u8, PAGE, 0);
            let a = l.align().max(1);
            let off = (data_pages * PAGE - l.size()) / a * a;
            digest(((p as u64) << 16) ^ off as u64 ^ ((l.size() as u64) << 40) ^ 0x6A);
            return (BASE + p * PAGE + off) as *mut u8;
        }
        let off = if npages == 1 {
            let slack = (PAGE - l.size()) / al;
            match OFF_MODE.load(Relaxed) {
                // every block at the same offset in its page: all addresses agree in their
                // low 12 bits (worst case for a multiplicative hash of pointers)
                1 => (FIXED_OFF.load(Relaxed) / al).min(slack) * al,
                2 => 0,
                _ => (lrand() % (slack as u64 + 1)) as usize * al,
            }
        } else {
            0
        };
        digest(((p as u64) << 16) ^ off as u64 ^ ((l.size() as u64) << 40));
        (BASE + p * PAGE + off) as *mut u8
    }

    unsafe fn dealloc(&self, ptr: *mut u8, l: Layout) {
        let a = ptr as usize;
        if a >= BASE && a < BASE + PAGES * PAGE {
            let p = (a - BASE) / PAGE;
            if STATE[p] != HEAD {
                report("double-free", a);
                _exit(EXIT_UAF);
            }
            if SIZE[p] as usize != l.size() {
                report("bad-free-size", a);
                _exit(EXIT_UAF);
            }
            // (the layout handed to dealloc must be the one the block was allocated with;
            // blocks handed out again by the reuse mode do not record it)
            if ALIGN_LOG[p] != 255 && ALIGN_LOG[p] as u32 != l.align().trailing_zeros() {
                report("bad-free-align", a);
                _exit(EXIT_UAF);
            }
            let n = NPG[p] as usize;
            for q in p..p + n {
                STATE[q] = QUAR;
            }
            LIVE_BLOCKS.fetch_sub(1, Relaxed);
            LIVE_BYTES.fetch_sub(l.size(), Relaxed);
            FREE_COUNT.fetch_add(1, Relaxed);
            digest(0xF4EE ^ ((p as u64) << 16));
            mprotect((BASE + p * PAGE) as *mut u8, n * PAGE, 0);
            if REUSE_ON.load(Relaxed) && n == 1 {
                if let Some(c) = class_of(l.size()) {
                    let k = FREE_LEN[c] as usize;
                    if k < CLASS_CAP {
                        FREE_LIST[c][k] = p as u32;
                        FREE_OFF[c][k] = (a - BASE - p * PAGE) as u16;
                        FREE_LEN[c] = (k + 1) as u8;
                    }
                }
            }
            return;
        }
        if SUT.load(Relaxed) {
            // counting-only mode: frees issued by library code
            FREE_COUNT.fetch_add(1, Relaxed);
            let c = COUNT_ONLY_LIVE.load(Relaxed);
            COUNT_ONLY_LIVE.store(c.saturating_sub(1), Relaxed);
        }
        System.dealloc(ptr, l)
    }
}

extern "C" fn on_signal(sig: i32, info: *const SigInfo, _ctx: *const u8) {
    unsafe {
        let a = (*info).addr;
        if sig == 11 || sig == 7 {
            if a >= BASE && a < BASE + PAGES * PAGE {
                let p = (a - BASE) / PAGE;
                if STATE[p] == QUAR {
                    report("use-after-free", a);
                } else {
                    report("arena-out-of-block", a);
                }
                _exit(EXIT_UAF);
            }
            report("wild-access", a);
            _exit(EXIT_WILD);
        }
        report("abort", sig as usize);
        _exit(EXIT_ABORT);
    }
}

/// Map the arena and install the fault handlers. `catch_aborts` additionally routes
/// SIGILL/SIGABRT/SIGFPE through the reporter (left at default for C16 children).
pub fn init(catch_aborts: bool) {
    if cfg!(miri) {
        // under Miri the interpreter itself is the memory-error detector: no arena
        let _ = catch_aborts;
        return;
    }
    unsafe {
        let p = mmap(BASE as *mut u8, PAGES * PAGE, 3, 0x02 | 0x20 | 0x100000, -1, 0);
        if p as usize != BASE {
            raw_write(2, b"HARNESS-ERROR cannot map arena at fixed address\n");
            _exit(EXIT_HARNESS);
        }
        let ss = StackT { sp: std::ptr::addr_of_mut!(ALT_STACK) as *mut u8, flags: 0, size: 1 << 16 };
        sigaltstack(&ss, std::ptr::null_mut());
        let sa = SigAction { handler: on_signal as usize, mask: [0; 16], flags: 4 | 0x0800_0000 | 0x4000_0000, restorer: 0 };
        sigaction(11, &sa, std::ptr::null_mut());
        sigaction(7, &sa, std::ptr::null_mut());
        if catch_aborts {
            sigaction(4, &sa, std::ptr::null_mut());
            sigaction(6, &sa, std::ptr::null_mut());
            sigaction(8, &sa, std::ptr::null_mut());
        }
        READY.store(true, Relaxed);
    }
}

/// Restore the default disposition of the abort-like signals (C16 children must die
/// the way a real process would).
pub fn default_abort_signals() {
    unsafe {
        let sa = SigAction { handler: 0, mask: [0; 16], flags: 0, restorer: 0 };
        sigaction(4, &sa, std::ptr::null_mut());
        sigaction(5, &sa, std::ptr::null_mut());
        sigaction(6, &sa, std::ptr::null_mut());
    }
}

/// Forget everything the previous run did and restart placement from `layout_seed`.
pub fn set_reuse(on: bool) {
    REUSE_ON.store(on, Relaxed);
}
/// 1 if the quarantine had to be given back during this execution
pub fn quarantine_recycled() -> usize {
    RECYCLED.load(Relaxed)
}
pub fn reused_blocks() -> usize {
    REUSED.load(Relaxed)
}

pub fn reset(layout_seed: u64, arena_on: bool) {
    unsafe {
        for c in 0..NCLASS {
            FREE_LEN[c] = 0;
        }
    }
    REUSED.store(0, Relaxed);
    RECYCLED.store(0, Relaxed);
    unsafe {
        let n = NTOUCHED.load(Relaxed);
        if n > 0 && READY.load(Relaxed) {
            mprotect(BASE as *mut u8, PAGES * PAGE, 3);
            for i in 0..n {
                STATE[TOUCHED[i] as usize] = FREE;
                IS_TOUCHED[TOUCHED[i] as usize] = 0;
            }
            NTOUCHED.store(0, Relaxed);
        }
    }
    ARENA_ON.store(arena_on, Relaxed);
    LIVE_BLOCKS.store(0, Relaxed);
    LIVE_BYTES.store(0, Relaxed);
    ALLOC_COUNT.store(0, Relaxed);
    FREE_COUNT.store(0, Relaxed);
    COUNT_ONLY_LIVE.store(0, Relaxed);
    DIGEST.store(0xcbf29ce484222325, Relaxed);
    LSEED.store(layout_seed ^ 0xA5A5_5A5A_1234_5678, Relaxed);
    let mode = (layout_seed >> 3) % 16;
    // (small seeds, which minimised replay files use, keep the default mode)
    OFF_MODE.store(match mode { 4 | 6 => 1, 5 => 2, 8 | 9 => 3, _ => 0 }, Relaxed);
    PAGE_MODE.store(usize::from(mode == 6 || mode == 7), Relaxed);
    FIXED_OFF.store(((layout_seed >> 9) % 256) as usize * 16, Relaxed);
    NEXT_PAGE.store((layout_seed >> 20) as usize % PAGES, Relaxed);
    IN_WEAK.store(false, Relaxed);
}

/// Burn `n` random free pages (interleaved unrelated allocation pattern): later
/// placements shift. Burnt pages are not counted as library blocks.
pub fn noise(n: usize) {
    if !READY.load(Relaxed) {
        return;
    }
    unsafe {
        for _ in 0..n {
            let p = (lrand() % PAGES as u64) as usize;
            if STATE[p] == FREE {
                STATE[p] = QUAR;
                touch(p);
            }
        }
    }
}

pub fn live_blocks() -> usize {
    LIVE_BLOCKS.load(Relaxed) + COUNT_ONLY_LIVE.load(Relaxed)
}
pub fn live_bytes() -> usize {
    LIVE_BYTES.load(Relaxed)
}
/// Arm (k >= 0) or disarm (-1) the allocation-failure fault: the k-th library-side allocation
/// from now on returns null.
pub fn fail_at(k: isize) {
    FAIL_SEEN.store(0, Relaxed);
    FAIL_FIRED.store(0, Relaxed);
    FAIL_AT.store(k, Relaxed);
}
pub fn fail_fired() -> bool {
    FAIL_FIRED.load(Relaxed) != 0
}
/// bytes requested by library-side code since the start of the process
pub fn alloc_bytes() -> usize {
    ALLOC_BYTES.load(Relaxed)
}
pub fn alloc_count() -> usize {
    ALLOC_COUNT.load(Relaxed)
}
pub fn free_count() -> usize {
    FREE_COUNT.load(Relaxed)
}
pub fn layout_digest() -> u64 {
    DIGEST.load(Relaxed)
}
pub fn pages_used() -> usize {
    NTOUCHED.load(Relaxed)
}

#[derive(Clone, Copy, PartialEq, Eq, Debug)]
pub enum BlockState {
    Live,
    Released,
    Unknown,
}

/// State of the arena block that contains `addr`.
pub fn block_state(addr: usize) -> BlockState {
    if addr < BASE || addr >= BASE + PAGES * PAGE {
        return BlockState::Unknown;
    }
    let p = (addr - BASE) / PAGE;
    unsafe {
        match STATE[p] {
            HEAD | CONT => BlockState::Live,
            // (a free page that once held a block: its quarantine was given back)
            QUAR | FREE => BlockState::Released,
            _ => BlockState::Unknown,
        }
    }
}

/// Generation of the block that currently occupies (or last occupied) `addr`'s page.
pub fn block_gen(addr: usize) -> u32 {
    if addr < BASE || addr >= BASE + PAGES * PAGE {
        return 0;
    }
    unsafe { GEN[(addr - BASE) / PAGE] }
}

/// State of the block that was at `addr` when its page had generation `gen`.
pub fn block_state_gen(addr: usize, gen: u32) -> BlockState {
    if block_gen(addr) != gen {
        // the page has been handed out again since: that block is gone
        return BlockState::Released;
    }
    block_state(addr)
}

pub fn page_index(addr: usize) -> usize {
    (addr.wrapping_sub(BASE)) / PAGE
}

struct DomainGuard(bool);
impl Drop for DomainGuard {
    fn drop(&mut self) {
        SUT.store(self.0, Relaxed);
    }
}

/// Run `f` as library (system-under-test) code.
#[inline]
pub fn sut<R>(f: impl FnOnce() -> R) -> R {
    let _g = DomainGuard(SUT.swap(true, Relaxed));
    f()
}

/// Run `f` as harness code.
#[inline]
pub fn har<R>(f: impl FnOnce() -> R) -> R {
    let _g = DomainGuard(SUT.swap(false, Relaxed));
    f()
}

pub fn in_sut() -> bool {
    SUT.load(Relaxed)
}
