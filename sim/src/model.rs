//! The executable reference model: a handle ledger, an adoption ledger and
//! liveness flags. No pointers, no hashing, ordered containers only. It is driven
//! event by event by the real execution and evaluates the oracles.

use crate::ops::Id;
use std::collections::{BTreeMap, BTreeSet};

pub const CANARY: u64 = 0xC0FF_EE5A_FE00_0000;
pub const CANARY_DEAD: u64 = 0xDEAD_DEAD_DEAD_DEAD;

#[derive(Clone, Debug, Default)]
pub struct Obj {
    /// value intact: its destructor has not begun
    pub alive: bool,
    /// the value lives in an Rc allocation (false: loose value returned by try_unwrap)
    pub rc: bool,
    /// bumped whenever the allocation is given up (try_unwrap, make_mut steal)
    pub epoch: u32,
    /// strong handles physically stored in the value: (slot id, target object)
    pub slots: Vec<(Id, Id)>,
    /// Weak handles stored in the value: (weak id, target object, target epoch)
    pub wslots: Vec<(Id, Id, u32)>,
    /// address of the current allocation, and the allocator's generation of that block
    pub addr: usize,
    pub addr_gen: u32,
    pub ever_recorded: bool,
    pub selfsame: u32,
    /// some bookkeeping call (incl. same-handle self adoption) has touched the table:
    /// its storage may stay allocated, empty, for the rest of the object's life
    pub had_table: bool,
    pub destroyed_seq: Option<usize>,
    /// destroyed (or left behind) by a call out of which a panic propagated
    pub interrupted: bool,
    pub zombie: bool,
}

#[derive(Clone, Debug)]
pub struct OldAlloc {
    pub addr: usize,
    pub gen: u32,
    pub obj: Id,
    pub epoch: u32,
}

#[derive(Clone, Debug)]
pub struct Frame {
    pub target: Id,
    /// snapshot of the ledgers when the release began (only in profiles that elide)
    pub snap: Option<Box<Snap>>,
}

#[derive(Clone, Debug)]
pub struct Snap {
    pub adopt: BTreeMap<(Id, Id), u32>,
    pub held: BTreeMap<(Id, Id), u32>,
    pub phys: BTreeMap<Id, u32>,
}

#[derive(Clone, Debug)]
pub struct WeakObs {
    pub inn: Id,
    pub target: Id,
    pub epoch: u32,
    pub some: bool,
    pub log_len: usize,
    pub doomed: bool,
}

#[derive(Default)]
pub struct Model {
    pub objs: BTreeMap<Id, Obj>,
    pub ph: BTreeMap<Id, Id>,
    pub temps: Vec<Id>,
    pub raws: BTreeMap<Id, (Id, u32)>,
    pub loose: BTreeMap<Id, Id>,
    pub pw: BTreeMap<Id, (Id, u32)>,
    pub adopt: BTreeMap<(Id, Id), u32>,
    pub p_ok: bool,
    pub elided: bool,
    pub over_recorded: bool,
    pub obligations: BTreeSet<Id>,
    pub obligations_total: u64,
    pub obligations_group: u64,
    pub destroyed_log: Vec<Id>,
    pub weak_obs: Vec<WeakObs>,
    pub frames: Vec<Frame>,
    pub addr_map: BTreeMap<usize, (Id, u32)>,
    pub old_allocs: Vec<OldAlloc>,
    pub want_snaps: bool,
    pub stale_destruction: bool,
    pub next_auto_id: Id,
}

pub enum Verdict {
    Ok,
    Bad { kind: &'static str, cause: String, msg: String },
}

impl Model {
    pub fn new(want_snaps: bool) -> Model {
        Model { p_ok: true, want_snaps, next_auto_id: 1_000_000, ..Model::default() }
    }

    pub fn auto_id(&mut self) -> Id {
        self.next_auto_id += 1;
        self.next_auto_id
    }

    pub fn obj(&self, o: Id) -> &Obj {
        self.objs.get(&o).expect("model: unknown object")
    }
    pub fn obj_mut(&mut self, o: Id) -> &mut Obj {
        self.objs.get_mut(&o).expect("model: unknown object")
    }
    pub fn is_alive(&self, o: Id) -> bool {
        self.objs.get(&o).map_or(false, |x| x.alive)
    }
    /// what a Weak created for (o, epoch) must observe
    pub fn weak_alive(&self, o: Id, epoch: u32) -> bool {
        self.objs.get(&o).map_or(false, |x| x.alive && x.rc && x.epoch == epoch && !x.zombie)
    }

    /// number of existing strong handles to `t`
    pub fn phys(&self, t: Id) -> u32 {
        let mut n = 0u32;
        n += self.ph.values().filter(|&&x| x == t).count() as u32;
        n += self.temps.iter().filter(|&&x| x == t).count() as u32;
        n += self.raws.values().filter(|&&(x, _)| x == t).map(|&(_, c)| c).sum::<u32>();
        for o in self.objs.values() {
            n += o.slots.iter().filter(|&&(_, x)| x == t).count() as u32;
        }
        n
    }

    /// `phys` for every object at once (one pass)
    pub fn phys_all(&self) -> BTreeMap<Id, u32> {
        let mut n: BTreeMap<Id, u32> = BTreeMap::new();
        for &t in self.ph.values() {
            *n.entry(t).or_insert(0) += 1;
        }
        for &t in &self.temps {
            *n.entry(t).or_insert(0) += 1;
        }
        for &(t, c) in self.raws.values() {
            *n.entry(t).or_insert(0) += c;
        }
        for o in self.objs.values() {
            for &(_, t) in &o.slots {
                *n.entry(t).or_insert(0) += 1;
            }
        }
        n
    }

    /// `nweak` for every (object, epoch) at once (one pass)
    pub fn nweak_all(&self) -> BTreeMap<(Id, u32), u32> {
        let mut n: BTreeMap<(Id, u32), u32> = BTreeMap::new();
        for &(t, e) in self.pw.values() {
            *n.entry((t, e)).or_insert(0) += 1;
        }
        for o in self.objs.values() {
            for &(_, t, e) in &o.wslots {
                *n.entry((t, e)).or_insert(0) += 1;
            }
        }
        n
    }

    /// number of existing Weak handles to the current allocation of `t`
    pub fn nweak(&self, t: Id, epoch: u32) -> u32 {
        let mut n = self.pw.values().filter(|&&(x, e)| x == t && e == epoch).count() as u32;
        for o in self.objs.values() {
            n += o.wslots.iter().filter(|&&(_, x, e)| x == t && e == epoch).count() as u32;
        }
        n
    }

    pub fn held(&self, owner: Id, target: Id) -> u32 {
        self.objs.get(&owner).map_or(0, |o| o.slots.iter().filter(|&&(_, x)| x == target).count() as u32)
    }

    /// objects reachable from what the program holds, through values of live objects
    pub fn must_live(&self) -> BTreeSet<Id> {
        let mut seen = BTreeSet::new();
        let mut work: Vec<Id> = self.ph.values().copied().collect();
        work.extend(self.temps.iter().copied());
        work.extend(self.raws.values().map(|&(o, _)| o));
        work.extend(self.loose.values().copied());
        while let Some(o) = work.pop() {
            if !seen.insert(o) {
                continue;
            }
            if let Some(x) = self.objs.get(&o) {
                if x.alive {
                    work.extend(x.slots.iter().map(|&(_, t)| t));
                }
            }
        }
        seen.retain(|o| self.is_alive(*o));
        seen
    }

    fn closure_in(adopt: &BTreeMap<(Id, Id), u32>, x: Id) -> BTreeSet<Id> {
        let mut seen = BTreeSet::new();
        let mut work = vec![x];
        while let Some(o) = work.pop() {
            if !seen.insert(o) {
                continue;
            }
            for (&(a, b), &c) in adopt.range((o, 0)..=(o, Id::MAX)) {
                if a == o && c > 0 {
                    work.push(b);
                }
            }
        }
        seen
    }

    pub fn closure(&self, x: Id) -> BTreeSet<Id> {
        Self::closure_in(&self.adopt, x)
    }

    pub fn row_empty(&self, o: Id) -> bool {
        !self.adopt.iter().any(|(&(a, b), &c)| c > 0 && (a == o || b == o))
    }

    /// every stored handle is recorded as an adoption, and nothing else is (C09's
    /// precondition)
    pub fn fully_recorded(&self) -> bool {
        for (&o, ob) in &self.objs {
            if !ob.alive {
                continue;
            }
            let mut held: BTreeMap<Id, u32> = BTreeMap::new();
            for &(_, t) in &ob.slots {
                *held.entry(t).or_insert(0) += 1;
            }
            for (&t, &n) in &held {
                if *self.adopt.get(&(o, t)).unwrap_or(&0) != n {
                    return false;
                }
            }
        }
        self.p_ok
    }

    pub fn recompute_p(&mut self) {
        let ok = self.adopt.iter().all(|(&(a, b), &c)| c <= self.held(a, b));
        self.p_ok = ok;
    }

    pub fn ledger_add(&mut self, owner: Id, target: Id) {
        *self.adopt.entry((owner, target)).or_insert(0) += 1;
        self.obj_mut(owner).ever_recorded = true;
        self.obj_mut(target).ever_recorded = true;
        self.obj_mut(owner).had_table = true;
        self.obj_mut(target).had_table = true;
        self.recompute_p();
    }

    /// returns whether a record existed
    pub fn ledger_remove_one(&mut self, owner: Id, target: Id) -> bool {
        let mut had = false;
        if let Some(c) = self.adopt.get_mut(&(owner, target)) {
            had = *c > 0;
            *c = c.saturating_sub(1);
            if *c == 0 {
                self.adopt.remove(&(owner, target));
            }
        }
        self.recompute_p();
        had
    }

    pub fn ledger_purge(&mut self, o: Id) {
        let keys: Vec<_> = self.adopt.keys().copied().filter(|&(a, b)| a == o || b == o).collect();
        for k in keys {
            self.adopt.remove(&k);
        }
        self.recompute_p();
    }

    fn snap(&self) -> Snap {
        let mut held = BTreeMap::new();
        let mut phys = BTreeMap::new();
        for (&o, x) in &self.objs {
            for &(_, t) in &x.slots {
                *held.entry((o, t)).or_insert(0) += 1;
            }
            phys.insert(o, self.phys(o));
        }
        Snap { adopt: self.adopt.clone(), held, phys }
    }

    /// A strong handle to `target` is about to be released by the library; the
    /// model has already stopped counting it. Obligations (C03) are generated here,
    /// from exactly the state the property speaks about ("afterwards").
    pub fn release_begin(&mut self, target: Id) -> Vec<Id> {
        let snap = if self.want_snaps && self.elided { Some(Box::new(self.snap())) } else { None };
        self.frames.push(Frame { target, snap });
        let before: Vec<Id> = self.obligations.iter().copied().collect();
        // the precondition "recorded <= held" is about the handles as they are now (a
        // stored handle may have just been redirected by make_mut)
        self.recompute_p();
        self.handle_removed(target);
        self.obligations.iter().copied().filter(|o| !before.contains(o)).collect()
    }

    pub fn release_end(&mut self) {
        self.frames.pop();
    }

    /// A strong handle to `x` has just been removed (the model no longer counts it).
    fn handle_removed(&mut self, x: Id) {
        let Some(ox) = self.objs.get(&x) else { return };
        if !ox.alive || !ox.rc || ox.zombie {
            return;
        }
        if self.phys(x) == 0 {
            if self.obligations.insert(x) {
                self.obligations_total += 1;
            }
            return;
        }
        if !self.p_ok {
            return;
        }
        let s = self.closure(x);
        let ok = s.iter().all(|&t| {
            let internal: u32 = s.iter().map(|&v| *self.adopt.get(&(v, t)).unwrap_or(&0)).sum();
            self.is_alive(t) && self.phys(t) == internal
        });
        if ok {
            self.obligations_group += 1;
            for t in s {
                if self.obligations.insert(t) {
                    self.obligations_total += 1;
                }
            }
        }
    }

    /// The documented orphan test evaluated on a ledger snapshot: is the forward
    /// closure of `x` condemned?
    fn snap_orphan(s: &Snap, x: Id, clip: bool) -> (bool, BTreeSet<Id>) {
        let adopt: BTreeMap<(Id, Id), u32> = if clip {
            s.adopt.iter().map(|(&k, &c)| (k, c.min(*s.held.get(&k).unwrap_or(&0)))).filter(|&(_, c)| c > 0).collect()
        } else {
            s.adopt.clone()
        };
        let set = Self::closure_in(&adopt, x);
        // adopters of members that are outside the closure keep the group alive
        for (&(a, b), &c) in &adopt {
            if c > 0 && set.contains(&b) && !set.contains(&a) {
                return (false, set);
            }
        }
        let ok = set.iter().all(|&t| {
            let internal: u32 = set.iter().map(|&v| *adopt.get(&(v, t)).unwrap_or(&0)).sum();
            *s.phys.get(&t).unwrap_or(&0) <= internal
        });
        (ok, set)
    }

    /// Signature of the recorded finding K1: the destroyed object belongs to a set
    /// that the documented orphan test condemns on the caller's ledger, and the only
    /// reason is a record whose handle is gone (the test fails once records are
    /// clipped to the handles actually held).
    pub fn stale_record_explains(&self, o: Id) -> bool {
        for f in self.frames.iter().rev() {
            if let Some(s) = &f.snap {
                let (orphan, set) = Self::snap_orphan(s, f.target, false);
                if orphan && set.contains(&o) {
                    let (clipped_orphan, cset) = Self::snap_orphan(s, f.target, true);
                    if !(clipped_orphan && cset.contains(&o)) {
                        return true;
                    }
                }
            }
        }
        false
    }

    /// The destructor of object `id` has begun.
    pub fn destroy_begin(&mut self, id: Id, canary: u64) -> Verdict {
        let Some(x) = self.objs.get(&id) else {
            return Verdict::Bad { kind: "corrupt-value", cause: "unknown-object-id".into(), msg: format!("destructor ran on a value with unknown id {id} (canary {canary:#x})") };
        };
        if !x.alive {
            return Verdict::Bad { kind: "double-destruction", cause: "destructor-ran-twice".into(), msg: format!("destructor of object {id} ran again (canary {canary:#x})") };
        }
        if canary != CANARY ^ id as u64 {
            return Verdict::Bad { kind: "corrupt-value", cause: "canary".into(), msg: format!("object {id} destroyed with corrupt canary {canary:#x}") };
        }
        if x.rc {
            // K1 signature: evaluated on the ledger snapshot taken when the release
            // that triggered this teardown began (the live ledger is purged as the
            // members die, so it cannot be used)
            let explained = self.elided && !self.over_recorded && self.stale_record_explains(id);
            if self.must_live().contains(&id) {
                let cause = if explained { "stale-record-explains-orphan" } else { "reachable-object-destroyed" };
                return Verdict::Bad {
                    kind: "premature-destruction",
                    cause: cause.into(),
                    msg: format!("object {id} destroyed while reachable from a handle the program holds (strong handles in existence: {}, recorded<=held: {}, an unadopt was elided: {})", self.phys(id), self.p_ok, self.elided),
                };
            }
            if explained {
                // an unreachable object destroyed only because of a stale record:
                // allowed by the upper bound, but handles to it may still exist
                self.stale_destruction = true;
            }
        }
        let seq = self.destroyed_log.len();
        let x = self.objs.get_mut(&id).unwrap();
        x.alive = false;
        x.destroyed_seq = Some(seq);
        self.destroyed_log.push(id);
        self.ledger_purge(id);
        Verdict::Ok
    }
}
