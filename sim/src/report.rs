//! Violation records. The context of the running execution (profile, seeds, fault
//! plan and the explicit calls issued so far) is kept pre-rendered in the shared
//! buffer, so that a model oracle, the fault handler or the supervisor can emit the
//! record with raw writes only. The first violation ends the process: after it the
//! heap of the system under test is not to be trusted.

use crate::alloc::{self, raw_write};
use crate::shared::sh;
use std::sync::atomic::{AtomicBool, AtomicU32, Ordering::Relaxed};

pub static F_SCRIPT: AtomicBool = AtomicBool::new(false);
pub static F_PANIC: AtomicBool = AtomicBool::new(false);
pub static F_CONSUMING: AtomicBool = AtomicBool::new(false);
pub static F_ELIDED: AtomicBool = AtomicBool::new(false);
pub static F_HARNESS_DEREF: AtomicBool = AtomicBool::new(false);
/// An object was destroyed only because a stale record (elided unadopt) made the
/// documented orphan test condemn it (finding K1); later memory faults follow from it.
pub static F_STALE_DESTRUCTION: AtomicBool = AtomicBool::new(false);
/// The running profile is the std differential (C07): every violation belongs to it.
pub static F_DIFFSTD: AtomicBool = AtomicBool::new(false);
/// The running profile is the abort enumeration (C16).
pub static F_C16: AtomicBool = AtomicBool::new(false);
pub static F_QUIET: AtomicBool = AtomicBool::new(false);
pub static STEP: AtomicU32 = AtomicU32::new(0);

// Soft oracle classes. A soft oracle is one whose violation does not endanger the
// rest of the execution (a leak, a wrong count, a wrong table entry). Each profile
// evaluates only the soft oracles that can be attributed to its own property, so that
// another property's (earlier, milder) symptom never ends the execution before the
// profile's own oracle has had the chance to see the consequence. Safety oracles
// (premature / double destruction, memory faults, resurrecting upgrades, results that
// desynchronise the model) are always evaluated: after them nothing can be trusted.
pub const S_COLLECT: u32 = 1;
pub const S_LEAK: u32 = 2;
pub const S_WEAK: u32 = 4;
pub const S_COUNT: u32 = 8;
pub const S_LEDGER: u32 = 16;
pub const S_COST: u32 = 32;
pub const S_PANIC: u32 = 64;
pub const S_VISITS: u32 = 128;
pub const S_ALL: u32 = 127;
pub static SOFT_MASK: AtomicU32 = AtomicU32::new(S_ALL);

pub fn soft_class(kind: &str) -> u32 {
    match kind {
        "not-collected" => S_COLLECT,
        "leak" | "not-released" | "released-early" => S_LEAK,
        "upgrade-wrong" | "dead-weak-counts" | "weak-counts" => S_WEAK,
        "count-mismatch" | "identity" | "api-observation" => S_COUNT,
        "ledger-mismatch" | "stale-record" | "asymmetric-record" => S_LEDGER,
        "traced-unlinked" | "alloc-unlinked" => S_COST,
        "panic-not-propagated" => S_PANIC,
        "revisit" => S_VISITS,
        _ => 0,
    }
}

#[inline]
pub fn soft_enabled(class: u32) -> bool {
    SOFT_MASK.load(Relaxed) & class != 0
}

/// Report a violation of a soft oracle, if the running profile evaluates it.
pub fn soft(kind: &str, cause: &str, msg: &str) {
    let c = soft_class(kind);
    if c == 0 || soft_enabled(c) {
        violation(kind, cause, msg);
    }
}

pub fn soft_mask_for(profile: &str) -> u32 {
    match profile {
        "C03" => S_COLLECT,
        "C04" => S_LEAK,
        "C05" => S_WEAK,
        "C06" => S_COUNT,
        "C08" => S_LEDGER,
        "C10" => S_ALL,
        "C11" => S_WEAK | S_COUNT | S_PANIC | S_LEAK,
        "C12" => S_LEAK | S_COUNT | S_LEDGER | S_COLLECT,
        "C14" => S_COST,
        "C15" => S_VISITS,
        _ => 0,
    }
}

pub fn reset_flags() {
    for f in [&F_SCRIPT, &F_PANIC, &F_CONSUMING, &F_ELIDED, &F_HARNESS_DEREF, &F_STALE_DESTRUCTION] {
        f.store(false, Relaxed);
    }
    STEP.store(0, Relaxed);
}

/// Start the context of one execution. `head` is the JSON prefix up to and
/// including `"ops":"`.
pub fn ctx_begin(head: &str) {
    crate::shared::set_ctx(head);
    // every execution start is a sign of life for the supervisor's watchdog
    sh().heartbeat += 1;
}

/// Append one issued call to the context.
pub fn ctx_push_op(text: &str, first: bool) {
    let s = sh();
    let mut n = s.ctx_len as usize;
    let need = text.len() + 1;
    if n + need + 512 >= crate::shared::CTX_CAP {
        return;
    }
    if !first {
        s.ctx[n] = b';';
        n += 1;
    }
    s.ctx[n..n + text.len()].copy_from_slice(text.as_bytes());
    s.ctx_len = (n + text.len()) as u64;
}

fn is_memory_kind(kind: &str) -> bool {
    matches!(
        kind,
        "use-after-free" | "double-free" | "bad-free-size" | "bad-free-align" | "arena-out-of-block" | "wild-access" | "abort" | "stale-access" | "internal-panic" | "held-handle-dangling" | "crash"
    )
}

/// Which properties a violation of this kind is attributed to (DESIGN.md §4).
pub fn attribute(kind: &str, out: &mut [&'static str; 6]) -> usize {
    let script = F_SCRIPT.load(Relaxed);
    let panic = F_PANIC.load(Relaxed);
    let consuming = F_CONSUMING.load(Relaxed);
    let elided = F_ELIDED.load(Relaxed);
    let mut n = 0;
    if F_DIFFSTD.load(Relaxed) {
        out[0] = "C07";
        return 1;
    }
    if F_C16.load(Relaxed) {
        out[0] = "C16";
        return 1;
    }
    let mut push = |p: &'static str, n: &mut usize| {
        if !out[..*n].contains(&p) {
            out[*n] = p;
            *n += 1;
        }
    };
    let safety = is_memory_kind(kind) || matches!(kind, "premature-destruction" | "double-destruction" | "corrupt-value");
    if safety {
        if elided {
            push("C13", &mut n);
        } else {
            if script {
                push("C10", &mut n);
            }
            if panic {
                push("C11", &mut n);
            }
            if n == 0 {
                // giving a handle up through try_unwrap / make_mut / the raw API is a
                // way of dropping it: the base property still applies, and C12 too
                if kind == "premature-destruction" {
                    push("C01", &mut n);
                } else {
                    push("C02", &mut n);
                }
            }
            if consuming {
                push("C12", &mut n);
            }
        }
        if matches!(kind, "bad-free-size" | "bad-free-align") {
            // memory handed back with a layout other than the one it was allocated with
            push("C04", &mut n);
        }
        if is_memory_kind(kind) {
            if alloc::IN_WEAK.load(Relaxed) {
                push("C05", &mut n);
            }
            if F_HARNESS_DEREF.load(Relaxed) && !elided {
                push("C01", &mut n);
            }
        }
        return n;
    }
    match kind {
        "not-collected" => {
            push("C03", &mut n);
            if consuming {
                push("C12", &mut n);
            }
        }
        "leak" | "not-released" | "released-early" => {
            push("C04", &mut n);
            if consuming {
                push("C12", &mut n);
            }
            // memory that is not part of the interrupted teardown must come back also when a
            // panic was in flight (the accounting already exempts the interrupted members)
            if panic {
                push("C11", &mut n);
            }
        }
        "upgrade-wrong" | "dead-weak-counts" | "weak-resurrect" | "weak-counts" => {
            push("C05", &mut n);
            if panic {
                push("C11", &mut n);
            }
        }
        "count-mismatch" | "identity" | "api-result" | "api-observation" => {
            push("C06", &mut n);
            if consuming {
                push("C12", &mut n);
            }
            if panic {
                push("C11", &mut n);
            }
        }
        "ledger-mismatch" | "stale-record" | "asymmetric-record" => {
            push("C08", &mut n);
            if consuming {
                push("C12", &mut n);
            }
        }
        "layout-dependence" => push("C09", &mut n),
        "order-dependence" => push("C08", &mut n),
        "panic-not-propagated" => push("C11", &mut n),
        "traced-unlinked" | "alloc-unlinked" => push("C14", &mut n),
        "revisit" | "hang" => push("C15", &mut n),
        _ => push("C02", &mut n),
    }
    if script {
        push("C10", &mut n);
    }
    n
}

fn itoa(mut v: u64, buf: &mut [u8; 24]) -> &[u8] {
    let mut i = 24;
    loop {
        i -= 1;
        buf[i] = b'0' + (v % 10) as u8;
        v /= 10;
        if v == 0 {
            break;
        }
    }
    &buf[i..]
}

/// Emit the record with raw writes only (async-signal-safe).
pub fn emit_raw(kind: &str, cause: &str, msg: &str, addr: u64) {
    let s = sh();
    if s.printed != 0 {
        return;
    }
    s.printed = 1;
    if F_QUIET.load(Relaxed) {
        return;
    }
    // After an object has been destroyed only because of a stale record while a
    // handle to it still existed somewhere, every later safety violation of the same
    // execution is a consequence of that destruction (finding K1).
    let safety = is_memory_kind(kind) || matches!(kind, "double-destruction" | "corrupt-value" | "premature-destruction");
    let cause = if safety && F_ELIDED.load(Relaxed) && F_STALE_DESTRUCTION.load(Relaxed) { "stale-record-explains-orphan" } else { cause };
    let mut props: [&'static str; 6] = [""; 6];
    let np = attribute(kind, &mut props);
    let mut b = [0u8; 24];
    // one buffer, one write: keep the line atomic with respect to other workers
    static mut LINE: [u8; crate::shared::CTX_CAP + 4096] = [0; crate::shared::CTX_CAP + 4096];
    let line = unsafe { &mut *std::ptr::addr_of_mut!(LINE) };
    let mut n = 0usize;
    let mut put = |x: &[u8], n: &mut usize| {
        let k = x.len().min(line.len() - *n - 2);
        line[*n..*n + k].copy_from_slice(&x[..k]);
        *n += k;
    };
    put(&s.ctx[..s.ctx_len as usize], &mut n);
    put(b"\",\"step\":", &mut n);
    put(itoa(STEP.load(Relaxed) as u64, &mut b), &mut n);
    put(b",\"props\":[", &mut n);
    for (i, p) in props[..np].iter().enumerate() {
        if i > 0 {
            put(b",", &mut n);
        }
        put(b"\"", &mut n);
        put(p.as_bytes(), &mut n);
        put(b"\"", &mut n);
    }
    put(b"],\"kind\":\"", &mut n);
    put(kind.as_bytes(), &mut n);
    put(b"\",\"cause\":\"", &mut n);
    put(cause.as_bytes(), &mut n);
    put(b"\",\"addr\":", &mut n);
    put(itoa(addr, &mut b), &mut n);
    put(b",\"msg\":\"", &mut n);
    for &c in msg.as_bytes() {
        if c == b'"' || c == b'\\' || c < 0x20 {
            put(b" ", &mut n);
        } else {
            put(&[c], &mut n);
        }
    }
    put(b"\"}\n", &mut n);
    raw_write(1, &line[..n]);
}

/// Report a violation found by an oracle and end the process.
pub fn violation(kind: &str, cause: &str, msg: &str) -> ! {
    alloc::har(|| emit_raw(kind, cause, msg, 0));
    unsafe { alloc::_exit(alloc::EXIT_VIOLATION) }
}

/// Installed into the allocator's fault handler.
pub fn on_fault(kind: &'static str, addr: usize) {
    let cause = if alloc::IN_WEAK.load(Relaxed) {
        "in-weak-method"
    } else if F_HARNESS_DEREF.load(Relaxed) {
        "deref-of-held-handle"
    } else {
        "library-access"
    };
    emit_raw(kind, cause, "memory fault while executing the call sequence", addr as u64);
}

pub fn harness_error(msg: &str) -> ! {
    alloc::har(|| {
        let s = sh();
        raw_write(2, b"HARNESS-ERROR ");
        raw_write(2, msg.as_bytes());
        raw_write(2, b"\n  context: ");
        raw_write(2, &s.ctx[..s.ctx_len as usize]);
        raw_write(2, b"\n");
    });
    unsafe { alloc::_exit(alloc::EXIT_HARNESS) }
}
