//! The call alphabet. A history is an explicit list of calls; every call that
//! creates a handle, Weak, raw pointer, value or object names the id of what it
//! creates, so that deleting calls during minimisation never renumbers the rest: a
//! call whose operand does not exist is a no-op.

pub type Id = u32;

#[derive(Clone, Debug, PartialEq, Eq)]
pub enum Op {
    New { o: Id, h: Id },
    /// Two-phase construction: `Rc::new_uninit`, the value written in place; the handle
    /// keeps the type `Rc<MaybeUninit<Node>>` (and so do its clones) until `AssumeInit`
    /// or until a call needs an `Rc<Node>`; adoptions between two such handles are made
    /// through the `MaybeUninit`-typed API.
    NewU { o: Id, h: Id },
    AssumeInit { h: Id },
    Clone { h: Id, d: Id },
    Drop { h: Id },
    /// `dst.clone_from(&src)`: handle `dst` is overwritten with a clone of `src`, its old
    /// target loses a handle.
    CloneFrom { dst: Id, src: Id },
    /// Move program handle `h` into the value of the object `owner` points to;
    /// `adopt` first calls `adopt_unchecked(&owner, &h)`.
    Store { h: Id, owner: Id, adopt: bool },
    /// Take stored handle `slot` out of the value behind `owner` (it becomes program
    /// handle `slot` again); `unadopt` calls `unadopt(&owner, &slot)`.
    Take { owner: Id, slot: Id, unadopt: bool },
    Adopt { owner: Id, target: Id },
    Unadopt { owner: Id, target: Id },
    SelfSame { h: Id },
    UnSelfSame { h: Id },
    Downgrade { h: Id, w: Id },
    Upgrade { w: Id, d: Id },
    WeakClone { w: Id, d: Id },
    WeakDrop { w: Id },
    /// `Weak::into_raw` immediately followed by `Weak::from_raw` on program Weak `w`
    /// (also after the object died); `as_ptr` is compared with the value address while
    /// the object is alive.
    WeakRaw { w: Id },
    StoreWeak { w: Id, owner: Id },
    TryUnwrap { h: Id, v: Id },
    MakeMut { h: Id, o2: Id },
    /// `Rc::make_mut` applied in place to the handle `slot` stored in the value behind
    /// `owner` (a list node calling make_mut on its `next` field).
    SlotMakeMut { owner: Id, slot: Id, o2: Id },
    GetMut { h: Id },
    IntoRaw { h: Id, r: Id },
    FromRaw { r: Id, h: Id },
    IncStrong { r: Id },
    DecStrong { r: Id },
    DropValue { v: Id },
    Noise { n: Id },
    /// Script only: clone / drop the `idx`-th handle still stored in the value whose
    /// destructor is running.
    SelfCloneSlot { idx: Id, d: Id },
    SelfDropSlot { idx: Id },
    /// Script only: `Rc::downgrade` the `idx`-th handle still stored in the dying
    /// value (possibly a handle to a dying peer) and keep the Weak as program Weak `w`.
    SelfDowngradeSlot { idx: Id, w: Id },
    /// Script only: the calls that ask "am I the only owner?" on the `idx`-th handle still
    /// stored in the dying value (possibly a handle to a dying peer): `Rc::get_mut`,
    /// `Rc::ptr_eq` with itself, `Rc::as_ptr`. None of them may hand out the value of a
    /// destroyed object.
    SelfGetMutSlot { idx: Id },
}

impl Op {
    pub fn name(&self) -> &'static str {
        match self {
            Op::New { .. } => "New",
            Op::NewU { .. } => "NewU",
            Op::AssumeInit { .. } => "AssumeInit",
            Op::Clone { .. } => "Clone",
            Op::Drop { .. } => "Drop",
            Op::CloneFrom { .. } => "CloneFrom",
            Op::Store { .. } => "Store",
            Op::Take { .. } => "Take",
            Op::Adopt { .. } => "Adopt",
            Op::Unadopt { .. } => "Unadopt",
            Op::SelfSame { .. } => "SelfSame",
            Op::UnSelfSame { .. } => "UnSelfSame",
            Op::Downgrade { .. } => "Downgrade",
            Op::Upgrade { .. } => "Upgrade",
            Op::WeakClone { .. } => "WeakClone",
            Op::WeakDrop { .. } => "WeakDrop",
            Op::WeakRaw { .. } => "WeakRaw",
            Op::StoreWeak { .. } => "StoreWeak",
            Op::TryUnwrap { .. } => "TryUnwrap",
            Op::MakeMut { .. } => "MakeMut",
            Op::SlotMakeMut { .. } => "SlotMakeMut",
            Op::GetMut { .. } => "GetMut",
            Op::IntoRaw { .. } => "IntoRaw",
            Op::FromRaw { .. } => "FromRaw",
            Op::IncStrong { .. } => "IncStrong",
            Op::DecStrong { .. } => "DecStrong",
            Op::DropValue { .. } => "DropValue",
            Op::Noise { .. } => "Noise",
            Op::SelfCloneSlot { .. } => "SelfCloneSlot",
            Op::SelfDropSlot { .. } => "SelfDropSlot",
            Op::SelfDowngradeSlot { .. } => "SelfDowngradeSlot",
            Op::SelfGetMutSlot { .. } => "SelfGetMutSlot",
        }
    }

    pub fn args(&self) -> Vec<Id> {
        match *self {
            Op::New { o, h } => vec![o, h],
            Op::NewU { o, h } => vec![o, h],
            Op::AssumeInit { h } => vec![h],
            Op::Clone { h, d } => vec![h, d],
            Op::Drop { h } => vec![h],
            Op::CloneFrom { dst, src } => vec![dst, src],
            Op::Store { h, owner, adopt } => vec![h, owner, adopt as Id],
            Op::Take { owner, slot, unadopt } => vec![owner, slot, unadopt as Id],
            Op::Adopt { owner, target } => vec![owner, target],
            Op::Unadopt { owner, target } => vec![owner, target],
            Op::SelfSame { h } => vec![h],
            Op::UnSelfSame { h } => vec![h],
            Op::Downgrade { h, w } => vec![h, w],
            Op::Upgrade { w, d } => vec![w, d],
            Op::WeakClone { w, d } => vec![w, d],
            Op::WeakDrop { w } => vec![w],
            Op::WeakRaw { w } => vec![w],
            Op::StoreWeak { w, owner } => vec![w, owner],
            Op::TryUnwrap { h, v } => vec![h, v],
            Op::MakeMut { h, o2 } => vec![h, o2],
            Op::SlotMakeMut { owner, slot, o2 } => vec![owner, slot, o2],
            Op::GetMut { h } => vec![h],
            Op::IntoRaw { h, r } => vec![h, r],
            Op::FromRaw { r, h } => vec![r, h],
            Op::IncStrong { r } => vec![r],
            Op::DecStrong { r } => vec![r],
            Op::DropValue { v } => vec![v],
            Op::Noise { n } => vec![n],
            Op::SelfCloneSlot { idx, d } => vec![idx, d],
            Op::SelfDropSlot { idx } => vec![idx],
            Op::SelfDowngradeSlot { idx, w } => vec![idx, w],
            Op::SelfGetMutSlot { idx } => vec![idx],
        }
    }

    pub fn text(&self) -> String {
        let mut s = String::from(self.name());
        for a in self.args() {
            s.push(' ');
            s.push_str(&a.to_string());
        }
        s
    }

    pub fn parse(t: &str) -> Result<Op, String> {
        let mut it = t.split_whitespace();
        let name = it.next().ok_or("empty op")?;
        let a: Vec<Id> = it.map(|x| x.parse::<Id>().map_err(|e| format!("{t}: {e}"))).collect::<Result<_, _>>()?;
        let need = |n: usize| if a.len() == n { Ok(()) } else { Err(format!("{t}: expected {n} arguments")) };
        Ok(match name {
            "New" => { need(2)?; Op::New { o: a[0], h: a[1] } }
            "NewU" => { need(2)?; Op::NewU { o: a[0], h: a[1] } }
            "AssumeInit" => { need(1)?; Op::AssumeInit { h: a[0] } }
            "Clone" => { need(2)?; Op::Clone { h: a[0], d: a[1] } }
            "Drop" => { need(1)?; Op::Drop { h: a[0] } }
            "CloneFrom" => { need(2)?; Op::CloneFrom { dst: a[0], src: a[1] } }
            "Store" => { need(3)?; Op::Store { h: a[0], owner: a[1], adopt: a[2] != 0 } }
            "Take" => { need(3)?; Op::Take { owner: a[0], slot: a[1], unadopt: a[2] != 0 } }
            "Adopt" => { need(2)?; Op::Adopt { owner: a[0], target: a[1] } }
            "Unadopt" => { need(2)?; Op::Unadopt { owner: a[0], target: a[1] } }
            "SelfSame" => { need(1)?; Op::SelfSame { h: a[0] } }
            "UnSelfSame" => { need(1)?; Op::UnSelfSame { h: a[0] } }
            "Downgrade" => { need(2)?; Op::Downgrade { h: a[0], w: a[1] } }
            "Upgrade" => { need(2)?; Op::Upgrade { w: a[0], d: a[1] } }
            "WeakClone" => { need(2)?; Op::WeakClone { w: a[0], d: a[1] } }
            "WeakDrop" => { need(1)?; Op::WeakDrop { w: a[0] } }
            "WeakRaw" => { need(1)?; Op::WeakRaw { w: a[0] } }
            "StoreWeak" => { need(2)?; Op::StoreWeak { w: a[0], owner: a[1] } }
            "TryUnwrap" => { need(2)?; Op::TryUnwrap { h: a[0], v: a[1] } }
            "MakeMut" => { need(2)?; Op::MakeMut { h: a[0], o2: a[1] } }
            "SlotMakeMut" => { need(3)?; Op::SlotMakeMut { owner: a[0], slot: a[1], o2: a[2] } }
            "GetMut" => { need(1)?; Op::GetMut { h: a[0] } }
            "IntoRaw" => { need(2)?; Op::IntoRaw { h: a[0], r: a[1] } }
            "FromRaw" => { need(2)?; Op::FromRaw { r: a[0], h: a[1] } }
            "IncStrong" => { need(1)?; Op::IncStrong { r: a[0] } }
            "DecStrong" => { need(1)?; Op::DecStrong { r: a[0] } }
            "DropValue" => { need(1)?; Op::DropValue { v: a[0] } }
            "Noise" => { need(1)?; Op::Noise { n: a[0] } }
            "SelfCloneSlot" => { need(2)?; Op::SelfCloneSlot { idx: a[0], d: a[1] } }
            "SelfDropSlot" => { need(1)?; Op::SelfDropSlot { idx: a[0] } }
            "SelfDowngradeSlot" => { need(2)?; Op::SelfDowngradeSlot { idx: a[0], w: a[1] } }
            "SelfGetMutSlot" => { need(1)?; Op::SelfGetMutSlot { idx: a[0] } }
            _ => return Err(format!("unknown op {name}")),
        })
    }
}

pub fn ops_text(ops: &[Op]) -> String {
    ops.iter().map(|o| o.text()).collect::<Vec<_>>().join(";")
}

/// Split a recorded history into its top-level calls and the inline destructor-side
/// calls (`@k <call>`).
pub fn parse_history(t: &str) -> Result<(Vec<Op>, Vec<(u32, Vec<Op>)>), String> {
    let mut ops = vec![];
    let mut inline: Vec<(u32, Vec<Op>)> = vec![];
    for part in t.split(';').map(str::trim).filter(|s| !s.is_empty() && !s.starts_with('[')) {
        if let Some(rest) = part.strip_prefix('@') {
            let (k, op) = rest.trim().split_once(' ').ok_or(format!("{part}: missing call"))?;
            let k: u32 = k.parse().map_err(|e| format!("{part}: {e}"))?;
            let op = Op::parse(op)?;
            match inline.iter_mut().find(|(kk, _)| *kk == k) {
                Some((_, v)) => v.push(op),
                None => inline.push((k, vec![op])),
            }
        } else {
            ops.push(Op::parse(part)?);
        }
    }
    Ok((ops, inline))
}

pub fn parse_ops(t: &str, sep: char) -> Result<Vec<Op>, String> {
    t.split(sep).map(str::trim).filter(|s| !s.is_empty() && !s.starts_with('[')).map(Op::parse).collect()
}

/// The fault plan of one execution.
#[derive(Clone, Debug, Default, PartialEq, Eq)]
pub struct Faults {
    /// Destructor positions (0-based index in the run's sequence of destructor
    /// invocations) at which the destructor panics after its script.
    pub panic_at: Vec<u32>,
    /// Scripts attached to destructor positions.
    pub scripts: Vec<(u32, Vec<Op>)>,
    /// Destructor-side calls that belong to the history itself (recorded inline as
    /// `@k <call>` when the payload's own destructor behaviour issued them): executed
    /// like a script, right before the value releases its stored handles, but not a
    /// fault for the purpose of attribution.
    pub inline: Vec<(u32, Vec<Op>)>,
    /// Invocation indices of the payload's `Clone` impl (run by `make_mut`) that panic.
    pub clone_panic_at: Vec<u32>,
    /// Destructor positions at which the destructor panics at its start (what it owns
    /// is released during the unwind).
    pub panic_early_at: Vec<u32>,
    /// Like `panic_early_at`, and the panic payload carries the strong handles the dying
    /// value stored out of the teardown; the program drops the payload after the call
    /// has unwound.
    pub panic_carry_at: Vec<u32>,
}

impl Faults {
    pub fn is_empty(&self) -> bool {
        self.panic_at.is_empty() && self.scripts.is_empty() && self.inline.is_empty() && self.clone_panic_at.is_empty() && self.panic_early_at.is_empty() && self.panic_carry_at.is_empty()
    }
    pub fn text(&self) -> String {
        let mut parts = vec![];
        for k in &self.panic_at {
            parts.push(format!("panic {k}"));
        }
        for k in &self.clone_panic_at {
            parts.push(format!("clonepanic {k}"));
        }
        for k in &self.panic_early_at {
            parts.push(format!("earlypanic {k}"));
        }
        for k in &self.panic_carry_at {
            parts.push(format!("carrypanic {k}"));
        }
        for (k, ops) in &self.scripts {
            parts.push(format!("script {k}:{}", ops.iter().map(|o| o.text()).collect::<Vec<_>>().join(",")));
        }
        parts.join("|")
    }
    pub fn parse(t: &str) -> Result<Faults, String> {
        let mut f = Faults::default();
        for part in t.split('|').map(str::trim).filter(|s| !s.is_empty()) {
            if let Some(k) = part.strip_prefix("panic ") {
                f.panic_at.push(k.trim().parse().map_err(|e| format!("{part}: {e}"))?);
            } else if let Some(k) = part.strip_prefix("earlypanic ") {
                f.panic_early_at.push(k.trim().parse().map_err(|e| format!("{part}: {e}"))?);
            } else if let Some(k) = part.strip_prefix("carrypanic ") {
                f.panic_carry_at.push(k.trim().parse().map_err(|e| format!("{part}: {e}"))?);
            } else if let Some(k) = part.strip_prefix("clonepanic ") {
                f.clone_panic_at.push(k.trim().parse().map_err(|e| format!("{part}: {e}"))?);
            } else if let Some(rest) = part.strip_prefix("script ") {
                let (k, ops) = rest.split_once(':').ok_or(format!("{part}: missing ':'"))?;
                f.scripts.push((k.trim().parse().map_err(|e| format!("{part}: {e}"))?, parse_ops(ops, ',')?));
            } else {
                return Err(format!("unknown fault entry {part}"));
            }
        }
        Ok(f)
    }
}

pub fn json_escape(s: &str) -> String {
    let mut o = String::with_capacity(s.len() + 8);
    for c in s.chars() {
        match c {
            '"' => o.push_str("\\\""),
            '\\' => o.push_str("\\\\"),
            '\n' => o.push_str("\\n"),
            c if (c as u32) < 0x20 => o.push_str(&format!("\\u{:04x}", c as u32)),
            c => o.push(c),
        }
    }
    o
}
