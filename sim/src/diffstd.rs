//! C07: lock-step differential execution of adoption-free programs on
//! `cactusref::{Rc, Weak}` and `std::rc::{Rc, Weak}`. One interpreter, instantiated
//! by macro for both families with structurally identical payload types; compared
//! are every returned observation and the destructor log.

use crate::alloc::har;
use crate::gen::Rng;
use std::cell::RefCell;

pub type Id = u32;

#[derive(Clone, Debug, PartialEq, Eq)]
pub enum D {
    New(Id, i32),
    FromT(Id, i32),
    FromBox(Id, i32),
    Uninit(Id, i32),
    Default(Id),
    Pin(i32),
    Clone(Id, Id),
    Drop(Id),
    Downgrade(Id, Id),
    Upgrade(Id, Id),
    WeakNew(Id),
    WeakDefault(Id),
    WeakClone(Id, Id),
    WeakDrop(Id),
    Counts(Id),
    WCounts(Id),
    PtrEq(Id, Id),
    WPtrEq(Id, Id),
    TryUnwrap(Id),
    GetMut(Id, i32),
    MakeMut(Id, i32),
    RawRound(Id),
    IntoRaw(Id),
    FromRaw(Id),
    Inc(Id),
    Dec(Id),
    WRawRound(Id),
    Cmp(Id, Id),
    Fmt(Id),
    Store(Id, Id),
    StoreWeak(Id, Id),
    Take(Id, Id, Id),
    TakeWeak(Id, Id, Id),
    AsPtrRel(Id, Id),
    Borrow(Id),
    DropVal(Id),
    /// Park handle h in a side slot; the next `V::clone` (run by make_mut) drops it:
    /// a Clone impl with a side effect on the very object being cloned.
    Park(Id),
}

impl D {
    pub fn text(&self) -> String {
        let s = format!("{:?}", self);
        s.replace('(', " ").replace(')', "").replace(',', "")
    }
    pub fn name(&self) -> String {
        self.text().split(' ').next().unwrap().to_string()
    }
    pub fn parse(t: &str) -> Result<D, String> {
        let mut it = t.split_whitespace();
        let n = it.next().ok_or("empty")?;
        let a: Vec<i64> = it.map(|x| x.parse::<i64>().map_err(|e| format!("{t}: {e}"))).collect::<Result<_, _>>()?;
        let u = |i: usize| -> Result<Id, String> { a.get(i).map(|&v| v as Id).ok_or(format!("{t}: missing argument")) };
        let k = |i: usize| -> Result<i32, String> { a.get(i).map(|&v| v as i32).ok_or(format!("{t}: missing argument")) };
        Ok(match n {
            "New" => D::New(u(0)?, k(1)?),
            "FromT" => D::FromT(u(0)?, k(1)?),
            "FromBox" => D::FromBox(u(0)?, k(1)?),
            "Uninit" => D::Uninit(u(0)?, k(1)?),
            "Default" => D::Default(u(0)?),
            "Pin" => D::Pin(k(0)?),
            "Clone" => D::Clone(u(0)?, u(1)?),
            "Drop" => D::Drop(u(0)?),
            "Downgrade" => D::Downgrade(u(0)?, u(1)?),
            "Upgrade" => D::Upgrade(u(0)?, u(1)?),
            "WeakNew" => D::WeakNew(u(0)?),
            "WeakDefault" => D::WeakDefault(u(0)?),
            "WeakClone" => D::WeakClone(u(0)?, u(1)?),
            "WeakDrop" => D::WeakDrop(u(0)?),
            "Counts" => D::Counts(u(0)?),
            "WCounts" => D::WCounts(u(0)?),
            "PtrEq" => D::PtrEq(u(0)?, u(1)?),
            "WPtrEq" => D::WPtrEq(u(0)?, u(1)?),
            "TryUnwrap" => D::TryUnwrap(u(0)?),
            "GetMut" => D::GetMut(u(0)?, k(1)?),
            "MakeMut" => D::MakeMut(u(0)?, k(1)?),
            "RawRound" => D::RawRound(u(0)?),
            "IntoRaw" => D::IntoRaw(u(0)?),
            "FromRaw" => D::FromRaw(u(0)?),
            "Inc" => D::Inc(u(0)?),
            "Dec" => D::Dec(u(0)?),
            "WRawRound" => D::WRawRound(u(0)?),
            "Cmp" => D::Cmp(u(0)?, u(1)?),
            "Fmt" => D::Fmt(u(0)?),
            "Store" => D::Store(u(0)?, u(1)?),
            "StoreWeak" => D::StoreWeak(u(0)?, u(1)?),
            "Take" => D::Take(u(0)?, u(1)?, u(2)?),
            "TakeWeak" => D::TakeWeak(u(0)?, u(1)?, u(2)?),
            "AsPtrRel" => D::AsPtrRel(u(0)?, u(1)?),
            "Borrow" => D::Borrow(u(0)?),
            "DropVal" => D::DropVal(u(0)?),
            "Park" => D::Park(u(0)?),
            _ => return Err(format!("unknown op {n}")),
        })
    }
}

pub fn prog_text(p: &[D]) -> String {
    p.iter().map(|d| d.text()).collect::<Vec<_>>().join(";")
}
pub fn parse_prog(t: &str) -> Result<Vec<D>, String> {
    t.split(';').map(str::trim).filter(|s| !s.is_empty()).map(D::parse).collect()
}

thread_local! {
    pub static LOG: RefCell<Vec<String>> = RefCell::new(vec![]);
    pub static NEXT: RefCell<u32> = RefCell::new(0);
}
pub fn log(s: impl FnOnce() -> String) {
    har(|| {
        let s = s();
        LOG.with(|l| l.borrow_mut().push(s))
    });
}
pub fn fresh() -> u32 {
    NEXT.with(|n| {
        let mut n = n.borrow_mut();
        *n += 1;
        *n
    })
}

macro_rules! interp {
    ($m:ident, $($p:tt)*) => {
        pub mod $m {
            use super::{fresh, log, D, Id};
            use std::borrow::Borrow;
            use std::cell::{Cell, RefCell};
            use std::collections::BTreeMap;
            use std::hash::{Hash, Hasher};
            use $($p)*::{Rc as R, Weak as Wk};
            pub struct V {
                pub id: u32,
                pub key: Cell<i32>,
                pub s: RefCell<Vec<(Id, R<V>)>>,
                pub w: RefCell<Vec<(Id, Wk<V>)>>,
            }
            impl V {
                fn new(key: i32) -> V {
                    V { id: fresh(), key: Cell::new(key), s: RefCell::new(vec![]), w: RefCell::new(vec![]) }
                }
            }
            impl Default for V {
                fn default() -> V {
                    V::new(-7)
                }
            }
            impl Drop for V {
                fn drop(&mut self) {
                    let id = self.id;
                    // observe stored Weak handles from inside the destructor
                    let obs: Vec<(bool, usize, usize)> = self.w.borrow().iter().map(|(_, x)| (x.upgrade().is_some(), x.strong_count(), x.weak_count())).collect();
                    log(|| format!("~{id} {obs:?}"));
                }
            }
            thread_local! { static PARKED: RefCell<Option<R<V>>> = RefCell::new(None); }
            impl Clone for V {
                fn clone(&self) -> V {
                    // a Clone impl with side effects: release the parked handle, if any
                    let parked = PARKED.with(|p| p.borrow_mut().take());
                    if let Some(r) = parked {
                        let id = r.id;
                        log(|| format!("clone releases parked handle to {id}"));
                        drop(r);
                    }
                    let v = V { id: fresh(), key: self.key.clone(), s: RefCell::new(self.s.borrow().clone()), w: RefCell::new(self.w.borrow().clone()) };
                    let (a, b) = (self.id, v.id);
                    log(|| format!("clone {a}->{b}"));
                    v
                }
            }
            impl PartialEq for V {
                fn eq(&self, o: &V) -> bool {
                    self.key == o.key
                }
            }
            impl Eq for V {}
            impl PartialOrd for V {
                fn partial_cmp(&self, o: &V) -> Option<std::cmp::Ordering> {
                    self.key.get().partial_cmp(&o.key.get())
                }
            }
            impl Ord for V {
                fn cmp(&self, o: &V) -> std::cmp::Ordering {
                    self.key.get().cmp(&o.key.get())
                }
            }
            impl Hash for V {
                fn hash<H: Hasher>(&self, h: &mut H) {
                    self.key.get().hash(h)
                }
            }
            impl std::fmt::Debug for V {
                fn fmt(&self, f: &mut std::fmt::Formatter<'_>) -> std::fmt::Result {
                    write!(f, "V({})", self.key.get())
                }
            }
            impl std::fmt::Display for V {
                fn fmt(&self, f: &mut std::fmt::Formatter<'_>) -> std::fmt::Result {
                    write!(f, "v{}", self.key.get())
                }
            }

            pub fn run(prog: &[D], on_step: &mut dyn FnMut(usize)) {
                let mut hs: BTreeMap<Id, R<V>> = BTreeMap::new();
                let mut ws: BTreeMap<Id, Wk<V>> = BTreeMap::new();
                let mut raws: BTreeMap<Id, (*const V, u32)> = BTreeMap::new();
                let mut vals: BTreeMap<Id, V> = BTreeMap::new();
                for (i, op) in prog.iter().enumerate() {
                    on_step(i);
                    log(|| format!("#{i}"));
                    match *op {
                        D::New(d, k) => {
                            if !hs.contains_key(&d) {
                                hs.insert(d, R::new(V::new(k)));
                            }
                        }
                        D::FromT(d, k) => {
                            if !hs.contains_key(&d) {
                                hs.insert(d, R::from(V::new(k)));
                            }
                        }
                        D::FromBox(d, k) => {
                            if !hs.contains_key(&d) {
                                hs.insert(d, R::from(Box::new(V::new(k))));
                            }
                        }
                        D::Default(d) => {
                            if !hs.contains_key(&d) {
                                let r: R<V> = Default::default();
                                hs.insert(d, r);
                            }
                        }
                        D::Pin(k) => {
                            let p = R::pin(V::new(k));
                            let key = p.key.get();
                            log(|| format!("pin {key}"));
                            drop(p);
                        }
                        D::Uninit(d, k) => {
                            if !hs.contains_key(&d) {
                                let mut u = R::<V>::new_uninit();
                                let r = unsafe {
                                    R::get_mut(&mut u).unwrap().as_mut_ptr().write(V::new(k));
                                    u.assume_init()
                                };
                                hs.insert(d, r);
                            }
                        }
                        D::Clone(h, d) => {
                            if let (Some(r), false) = (hs.get(&h), hs.contains_key(&d)) {
                                let c = R::clone(r);
                                hs.insert(d, c);
                            }
                        }
                        D::Drop(h) => {
                            if let Some(r) = hs.remove(&h) {
                                drop(r);
                            }
                        }
                        D::Downgrade(h, d) => {
                            if let (Some(r), false) = (hs.get(&h), ws.contains_key(&d)) {
                                ws.insert(d, R::downgrade(r));
                            }
                        }
                        D::Upgrade(w, d) => {
                            if let (Some(x), false) = (ws.get(&w), hs.contains_key(&d)) {
                                match x.upgrade() {
                                    Some(r) => {
                                        let id = r.id;
                                        log(|| format!("up some {id}"));
                                        hs.insert(d, r);
                                    }
                                    None => log(|| "up none".into()),
                                }
                            }
                        }
                        D::WeakNew(d) => {
                            if !ws.contains_key(&d) {
                                ws.insert(d, Wk::new());
                            }
                        }
                        D::WeakDefault(d) => {
                            if !ws.contains_key(&d) {
                                let x: Wk<V> = Default::default();
                                ws.insert(d, x);
                            }
                        }
                        D::WeakClone(w, d) => {
                            if let (Some(x), false) = (ws.get(&w), ws.contains_key(&d)) {
                                let c = x.clone();
                                ws.insert(d, c);
                            }
                        }
                        D::WeakDrop(w) => {
                            ws.remove(&w);
                        }
                        D::Counts(h) => {
                            if let Some(r) = hs.get(&h) {
                                let (a, b, c) = (r.id, R::strong_count(r), R::weak_count(r));
                                log(|| format!("counts {a} {b} {c}"));
                            }
                        }
                        D::WCounts(w) => {
                            if let Some(x) = ws.get(&w) {
                                let (a, b) = (x.strong_count(), x.weak_count());
                                let dbg = format!("{x:?}");
                                log(|| format!("wcounts {a} {b} {dbg}"));
                            }
                        }
                        D::PtrEq(a, b) => {
                            if let (Some(x), Some(y)) = (hs.get(&a), hs.get(&b)) {
                                let e = R::ptr_eq(x, y);
                                let e2 = R::as_ptr(x) == R::as_ptr(y);
                                log(|| format!("ptreq {e} {e2}"));
                            }
                        }
                        D::WPtrEq(a, b) => {
                            if let (Some(x), Some(y)) = (ws.get(&a), ws.get(&b)) {
                                let e = x.ptr_eq(y);
                                log(|| format!("wptreq {e}"));
                            }
                        }
                        D::TryUnwrap(h) => {
                            if let Some(r) = hs.remove(&h) {
                                match R::try_unwrap(r) {
                                    Ok(v) => {
                                        let id = v.id;
                                        log(|| format!("unwrap ok {id}"));
                                        vals.insert(h, v);
                                    }
                                    Err(r) => {
                                        let id = r.id;
                                        log(|| format!("unwrap err {id}"));
                                        hs.insert(h, r);
                                    }
                                }
                            }
                        }
                        D::GetMut(h, k) => {
                            if let Some(r) = hs.get_mut(&h) {
                                match R::get_mut(r) {
                                    Some(v) => {
                                        v.key.set(k);
                                        let id = v.id;
                                        log(|| format!("getmut some {id}"));
                                    }
                                    None => log(|| "getmut none".into()),
                                }
                            }
                        }
                        D::MakeMut(h, k) => {
                            if let Some(r) = hs.get_mut(&h) {
                                let v = R::make_mut(r);
                                v.key.set(k);
                                let id = v.id;
                                let (sc, wc) = (R::strong_count(r), R::weak_count(r));
                                log(|| format!("makemut {id} {sc} {wc}"));
                            }
                        }
                        D::RawRound(h) => {
                            if let Some(r) = hs.remove(&h) {
                                let before = R::as_ptr(&r);
                                let p = R::into_raw(r);
                                let id = unsafe { (*p).id };
                                let same = p == before;
                                log(|| format!("raw {id} {same}"));
                                let r = unsafe { R::from_raw(p) };
                                hs.insert(h, r);
                            }
                        }
                        D::IntoRaw(h) => {
                            if let (Some(_), false) = (hs.get(&h), raws.contains_key(&h)) {
                                let r = hs.remove(&h).unwrap();
                                raws.insert(h, (R::into_raw(r), 1));
                            }
                        }
                        D::FromRaw(h) => {
                            if let (Some(&(p, n)), false) = (raws.get(&h), hs.contains_key(&h)) {
                                if n <= 1 {
                                    raws.remove(&h);
                                } else {
                                    raws.insert(h, (p, n - 1));
                                }
                                let r = unsafe { R::from_raw(p) };
                                let (id, sc) = (r.id, R::strong_count(&r));
                                log(|| format!("fromraw {id} {sc}"));
                                hs.insert(h, r);
                            }
                        }
                        D::Inc(h) => {
                            if let Some(&(p, n)) = raws.get(&h) {
                                unsafe { R::increment_strong_count(p) };
                                raws.insert(h, (p, n + 1));
                            } else if let Some(r) = hs.get(&h) {
                                // through as_ptr of a live handle: creates a ghost
                                let p = R::as_ptr(r);
                                unsafe { R::increment_strong_count(p) };
                                let sc = R::strong_count(r);
                                log(|| format!("inc {sc}"));
                                raws.insert(h, (p, 1));
                            }
                        }
                        D::Dec(h) => {
                            if let Some(&(p, n)) = raws.get(&h) {
                                if n <= 1 {
                                    raws.remove(&h);
                                } else {
                                    raws.insert(h, (p, n - 1));
                                }
                                unsafe { R::decrement_strong_count(p) };
                                log(|| "dec".into());
                            }
                        }
                        D::WRawRound(w) => {
                            if let Some(x) = ws.remove(&w) {
                                let before = x.as_ptr();
                                let p = x.into_raw();
                                let same = p == before;
                                let x = unsafe { Wk::from_raw(p) };
                                let (a, b) = (x.strong_count(), x.weak_count());
                                log(|| format!("wraw {same} {a} {b}"));
                                ws.insert(w, x);
                            }
                        }
                        D::Cmp(a, b) => {
                            if let (Some(x), Some(y)) = (hs.get(&a), hs.get(&b)) {
                                let mut h1 = std::collections::hash_map::DefaultHasher::new();
                                x.hash(&mut h1);
                                let hv = h1.finish();
                                let s = format!("cmp {} {} {:?} {:?} {} {} {} {} {hv}", x == y, x != y, x.partial_cmp(y), x.cmp(y), x < y, x <= y, x > y, x >= y);
                                log(|| s);
                            }
                        }
                        D::Fmt(h) => {
                            if let Some(r) = hs.get(&h) {
                                let c = R::clone(r);
                                let s = format!("fmt {:?} {} {} {}", r, r, format!("{:p}", *r) == format!("{:p}", c), format!("{:p}", *r) == format!("{:p}", R::as_ptr(r)));
                                log(|| s);
                            }
                        }
                        D::Store(h, o) => {
                            if h != o && hs.contains_key(&o) {
                                if let Some(r) = hs.remove(&h) {
                                    hs[&o].s.borrow_mut().push((h, r));
                                }
                            }
                        }
                        D::StoreWeak(w, o) => {
                            if hs.contains_key(&o) {
                                if let Some(x) = ws.remove(&w) {
                                    hs[&o].w.borrow_mut().push((w, x));
                                }
                            }
                        }
                        D::Take(o, slot, d) => {
                            if let (Some(r), false) = (hs.get(&o), hs.contains_key(&d)) {
                                let pos = r.s.borrow().iter().position(|(id, _)| *id == slot);
                                if let Some(pos) = pos {
                                    let (_, t) = r.s.borrow_mut().remove(pos);
                                    hs.insert(d, t);
                                }
                            }
                        }
                        D::TakeWeak(o, slot, d) => {
                            if let (Some(r), false) = (hs.get(&o), ws.contains_key(&d)) {
                                let pos = r.w.borrow().iter().position(|(id, _)| *id == slot);
                                if let Some(pos) = pos {
                                    let (_, t) = r.w.borrow_mut().remove(pos);
                                    ws.insert(d, t);
                                }
                            }
                        }
                        D::AsPtrRel(h, w) => {
                            if let (Some(r), Some(x)) = (hs.get(&h), ws.get(&w)) {
                                let e = R::as_ptr(r) == x.as_ptr();
                                log(|| format!("asptr {e}"));
                            }
                        }
                        D::Borrow(h) => {
                            if let Some(r) = hs.get(&h) {
                                let b: &V = r.borrow();
                                let a: &V = r.as_ref();
                                let (x, y) = (b.id, a.id);
                                let same = std::ptr::eq(b, R::as_ptr(r));
                                log(|| format!("borrow {x} {y} {same}"));
                            }
                        }
                        D::DropVal(h) => {
                            if let Some(v) = vals.remove(&h) {
                                drop(v);
                            }
                        }
                        D::Park(h) => {
                            if let Some(r) = hs.remove(&h) {
                                let old = PARKED.with(|p| p.borrow_mut().replace(r));
                                drop(old);
                            }
                        }
                    }
                }
                log(|| "end".into());
                drop(PARKED.with(|p| p.borrow_mut().take()));
                drop(vals);
                let keys: Vec<Id> = raws.keys().copied().collect();
                for k in keys {
                    let (p, n) = raws.remove(&k).unwrap();
                    for _ in 0..n {
                        unsafe { R::decrement_strong_count(p) };
                    }
                }
                let keys: Vec<Id> = hs.keys().copied().collect();
                for k in keys {
                    let r = hs.remove(&k).unwrap();
                    drop(r);
                }
                for (_, x) in ws.iter() {
                    let (a, b, c) = (x.strong_count(), x.weak_count(), x.upgrade().is_some());
                    log(|| format!("final w {a} {b} {c}"));
                }
            }
        }
    };
}
interp!(cactus, cactusref);
interp!(stdrc, std::rc);

pub fn generate(rng: &mut Rng, thorough: bool) -> Vec<D> {
    let n = 4 + rng.below(if thorough { 70 } else { 44 });
    let mut v = vec![];
    let (mut nh, mut nw) = (0u32, 0u32);
    let mut hid = |nh: &mut u32| {
        *nh += 1;
        *nh - 1
    };
    for k in 0..1 + rng.below(3) {
        v.push(D::New(hid(&mut nh), k as i32 % 2));
    }
    for _ in 0..n {
        let recent = |rng: &mut Rng, n: u32| -> Id {
            if n == 0 {
                0
            } else if n > 6 && rng.below(2) == 0 {
                n - 1 - rng.below(6) as u32
            } else {
                rng.below(n as usize) as Id
            }
        };
        let k = rng.below(4) as i32;
        let op = match rng.below(46) {
            0 | 1 => D::New(hid(&mut nh), k),
            2 => D::FromT(hid(&mut nh), k),
            3 => D::FromBox(hid(&mut nh), k),
            4 => D::Uninit(hid(&mut nh), k),
            5 => D::Pin(k),
            6 => D::Default(hid(&mut nh)),
            7 | 8 | 9 => D::Clone(recent(rng, nh), hid(&mut nh)),
            10 | 11 | 12 | 13 => D::Drop(recent(rng, nh)),
            14 | 15 | 16 => D::Downgrade(recent(rng, nh), hid(&mut nw)),
            17 | 18 => D::Upgrade(recent(rng, nw), hid(&mut nh)),
            19 => {
                if rng.below(2) == 0 {
                    D::WeakNew(hid(&mut nw))
                } else {
                    D::WeakDefault(hid(&mut nw))
                }
            }
            20 => D::WeakClone(recent(rng, nw), hid(&mut nw)),
            21 | 22 => D::WeakDrop(recent(rng, nw)),
            23 => D::Counts(recent(rng, nh)),
            24 | 25 => D::WCounts(recent(rng, nw)),
            26 => D::PtrEq(recent(rng, nh), recent(rng, nh)),
            27 => D::WPtrEq(recent(rng, nw), recent(rng, nw)),
            28 | 29 => D::TryUnwrap(recent(rng, nh)),
            30 => D::GetMut(recent(rng, nh), k),
            31 | 32 => D::MakeMut(recent(rng, nh), k),
            33 => D::RawRound(recent(rng, nh)),
            34 => match rng.below(4) {
                0 => D::IntoRaw(recent(rng, nh)),
                1 => D::FromRaw(recent(rng, nh)),
                2 => D::Inc(recent(rng, nh)),
                _ => D::Dec(recent(rng, nh)),
            },
            35 => D::WRawRound(recent(rng, nw)),
            36 => D::Cmp(recent(rng, nh), recent(rng, nh)),
            37 => D::Fmt(recent(rng, nh)),
            38 | 39 => D::Store(recent(rng, nh), recent(rng, nh)),
            40 => D::StoreWeak(recent(rng, nw), recent(rng, nh)),
            41 => {
                if rng.below(3) == 0 {
                    D::TakeWeak(recent(rng, nh), recent(rng, nw), hid(&mut nw))
                } else {
                    D::Take(recent(rng, nh), recent(rng, nh), hid(&mut nh))
                }
            }
            42 => {
                if rng.below(2) == 0 {
                    D::AsPtrRel(recent(rng, nh), recent(rng, nw))
                } else {
                    D::Borrow(recent(rng, nh))
                }
            }
            43 => D::DropVal(recent(rng, nh)),
            _ => D::Park(recent(rng, nh)),
        };
        v.push(op);
    }
    v
}

pub struct DiffOut {
    pub equal: bool,
    pub step: usize,
    pub cactus: String,
    pub std: String,
    pub observations: usize,
    pub destroyed: usize,
}

/// Run `prog` on both families and compare the logs.
pub fn run_both(prog: &[D], on_step: &mut dyn FnMut(usize)) -> DiffOut {
    har(|| {
        LOG.with(|l| l.borrow_mut().clear());
        NEXT.with(|n| *n.borrow_mut() = 0);
    });
    crate::alloc::sut(|| cactus::run(prog, on_step));
    let l1 = har(|| LOG.with(|l| std::mem::take(&mut *l.borrow_mut())));
    har(|| NEXT.with(|n| *n.borrow_mut() = 0));
    let mut nop = |_: usize| {};
    crate::alloc::sut(|| stdrc::run(prog, &mut nop));
    let l2 = har(|| LOG.with(|l| std::mem::take(&mut *l.borrow_mut())));
    let observations = l1.iter().filter(|s| !s.starts_with('#')).count();
    let destroyed = l1.iter().filter(|s| s.starts_with('~')).count();
    if l1 == l2 {
        return DiffOut { equal: true, step: 0, cactus: String::new(), std: String::new(), observations, destroyed };
    }
    let i = l1.iter().zip(l2.iter()).position(|(x, y)| x != y).unwrap_or(l1.len().min(l2.len()));
    let step = l1[..i.min(l1.len())].iter().rev().find(|s| s.starts_with('#')).map(|s| s[1..].parse().unwrap_or(0)).unwrap_or(0);
    DiffOut { equal: false, step, cactus: l1.get(i).cloned().unwrap_or("<end of log>".into()), std: l2.get(i).cloned().unwrap_or("<end of log>".into()), observations, destroyed }
}
