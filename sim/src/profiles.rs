//! Per-property configuration: which knobs the swarm draws, which execution mode
//! decides the property, and what makes an execution non-trivial for it.

use crate::gen::{set_w, Knobs, Rng, K, NK};
use crate::shared::{St, NSTATS};

#[derive(Clone, Copy, Debug, PartialEq, Eq)]
pub enum Mode {
    Plain,
    Layouts,
    EnumPanic,
    EnumScript,
    DiffStd,
    AbortEnum,
}

pub struct Profile {
    pub name: &'static str,
    pub mode: Mode,
    pub want_snaps: bool,
}

pub const PROFILES: &[Profile] = &[
    Profile { name: "C01", mode: Mode::Plain, want_snaps: false },
    Profile { name: "C02", mode: Mode::Plain, want_snaps: false },
    Profile { name: "C03", mode: Mode::Plain, want_snaps: false },
    Profile { name: "C04", mode: Mode::Plain, want_snaps: false },
    Profile { name: "C05", mode: Mode::Plain, want_snaps: false },
    Profile { name: "C06", mode: Mode::Plain, want_snaps: false },
    Profile { name: "C07", mode: Mode::DiffStd, want_snaps: false },
    Profile { name: "C08", mode: Mode::Plain, want_snaps: false },
    Profile { name: "C09", mode: Mode::Layouts, want_snaps: false },
    Profile { name: "C10", mode: Mode::EnumScript, want_snaps: false },
    Profile { name: "C11", mode: Mode::EnumPanic, want_snaps: false },
    Profile { name: "C12", mode: Mode::Plain, want_snaps: false },
    Profile { name: "C13", mode: Mode::Plain, want_snaps: true },
    Profile { name: "C14", mode: Mode::Plain, want_snaps: false },
    Profile { name: "C15", mode: Mode::Plain, want_snaps: false },
    Profile { name: "C16", mode: Mode::AbortEnum, want_snaps: false },
];

pub fn profile(name: &str) -> Option<&'static Profile> {
    PROFILES.iter().find(|p| p.name == name)
}

fn base(rng: &mut Rng, thorough: bool) -> Knobs {
    let mut weights = [0u32; NK];
    let w = |k: K, v: u32, ws: &mut [u32; NK]| ws[k as usize] = v;
    w(K::New, 6, &mut weights);
    w(K::Clone, 10, &mut weights);
    w(K::Drop, 14, &mut weights);
    w(K::Store, 16, &mut weights);
    w(K::Take, 5, &mut weights);
    w(K::Adopt, 2, &mut weights);
    w(K::Unadopt, 2, &mut weights);
    let small = rng.chance(1, 2);
    let max_objs = if small { 1 + rng.below(3) } else { 2 + rng.below(if thorough { 8 } else { 5 }) };
    let structured = rng.chance(3, 5);
    let mut shape = if structured { 1 + rng.below(10) as u32 } else { 0 };
    let mut shape_objs = if small { 1 + rng.below(3) } else { 1 + rng.below(max_objs) };
    let mut max_objs = max_objs;
    // a minority of runs is big: many peers per table, map resizes, long groups
    if rng.chance(1, 12) {
        max_objs = 6 + rng.below(if thorough { 7 } else { 4 });
        shape_objs = 4 + rng.below(max_objs - 3);
        if shape == 0 || rng.chance(1, 3) {
            shape = 10;
        }
    }
    // a rare run is a long churn on very few objects: thousands of store / take /
    // adopt / unadopt / clone / drop cycles on the same pairs (tombstones, rehash in
    // place, counters that only move after many operations)
    let churn = rng.chance(1, 500);
    if churn {
        max_objs = 2 + rng.below(3);
        shape = 0;
        w(K::New, 1, &mut weights);
        w(K::Clone, 12, &mut weights);
        w(K::Drop, 10, &mut weights);
        w(K::Store, 16, &mut weights);
        w(K::Take, 14, &mut weights);
        w(K::Adopt, 4, &mut weights);
        w(K::Unadopt, 4, &mut weights);
    }
    Knobs {
        max_objs,
        walk_len: if churn {
            1000 + rng.below(if thorough { 4000 } else { 2000 })
        } else if structured { rng.below(if thorough { 30 } else { 16 }) } else { 6 + rng.below(if thorough { 54 } else { 34 }) },
        weights,
        adopt_p: 8,
        elide_p: 0,
        unmatched_p: 0,
        max_mult: if rng.chance(1, 6) { 3 + rng.below(3) } else { 1 + rng.below(3) },
        shape,
        shape_objs,
        drain: rng.chance(7, 8),
        keep: rng.below(3),
        weak_p: 0,
        selfsame_p: 0,
        extra_clone_p: 2 + rng.below(3) as u32,
        consuming_on_adopted: false,
        drain_consuming: false,
        uninit_p: 0,
        dtor_downgrade_p: 0,
    }
}

/// One run in `one_in`: a hub with many peers in both directions (tables and the
/// trace's map well past their initial capacities, > 16 distinct records in one
/// table), followed by a walk that removes and re-records adoptions and lets peers die.
fn dense_hub(rng: &mut Rng, kn: &mut Knobs, thorough: bool, one_in: u32, giant_in: u32) {
    if !rng.chance(1, one_in) {
        return;
    }
    kn.shape = 10;
    kn.shape_objs = 8 + rng.below(if thorough { 8 } else { 5 });
    if rng.chance(1, giant_in) {
        // a giant hub: more than 32 distinct records in one table whose owner lives on
        kn.shape_objs = 18 + rng.below(if thorough { 44 } else { 24 });
    }
    kn.max_objs = kn.shape_objs + rng.below(3);
    kn.adopt_p = 8;
    kn.max_mult = 1 + rng.below(2);
    kn.walk_len = 16 + rng.below(40);
    if kn.shape_objs >= 18 {
        kn.walk_len = 20 + rng.below(30);
        kn.extra_clone_p = 0;
    }
    set_w(kn, K::New, 2);
    set_w(kn, K::Clone, 8);
    set_w(kn, K::Drop, 14);
    set_w(kn, K::Store, 14);
    set_w(kn, K::Take, 12);
    set_w(kn, K::Adopt, 4);
    set_w(kn, K::Unadopt, 6);
    kn.extra_clone_p = 1;
    kn.drain = true;
}

fn recording_discipline(rng: &mut Rng, kn: &mut Knobs) {
    // all stored handles adopted / each with probability p / none
    kn.adopt_p = match rng.below(8) {
        0 => 0,
        1 | 2 => 4,
        3 => 6,
        _ => 8,
    };
}

fn with_weak(rng: &mut Rng, kn: &mut Knobs, heavy: bool) {
    kn.weak_p = if heavy { 3 + rng.below(5) as u32 } else { rng.below(4) as u32 };
    let f = if heavy { 2 } else { 1 };
    set_w(kn, K::Downgrade, 4 * f);
    set_w(kn, K::Upgrade, 4 * f);
    set_w(kn, K::WeakClone, 2 * f);
    set_w(kn, K::WeakDrop, 3 * f);
    set_w(kn, K::StoreWeak, 2 * f);
    if rng.chance(1, 2) {
        set_w(kn, K::WeakRaw, 2 * f);
    }
}

fn with_selfsame(rng: &mut Rng, kn: &mut Knobs) {
    if rng.chance(1, 4) {
        kn.selfsame_p = 1 + rng.below(4) as u32;
        set_w(kn, K::SelfSame, 2);
        set_w(kn, K::UnSelfSame, 1);
    }
}

fn with_unmatched(rng: &mut Rng, kn: &mut Knobs) {
    if rng.chance(1, 2) {
        kn.unmatched_p = 1 + rng.below(8) as u32;
        set_w(kn, K::Unadopt, 4);
    }
}

fn with_noise(rng: &mut Rng, kn: &mut Knobs) {
    if rng.chance(1, 3) {
        set_w(kn, K::Noise, 3);
    }
}

/// Draw the knobs of one run.
pub fn knobs(profile: &str, thorough: bool, rng: &mut Rng) -> Knobs {
    let mut kn = base(rng, thorough);
    match profile {
        "C01" => {
            recording_discipline(rng, &mut kn);
            with_weak(rng, &mut kn, false);
            with_selfsame(rng, &mut kn);
            with_unmatched(rng, &mut kn);
            with_noise(rng, &mut kn);
            // keep outside handles alive across collections and use them afterwards
            kn.extra_clone_p = 3 + rng.below(4) as u32;
            set_w(&mut kn, K::Clone, 12);
            dense_hub(rng, &mut kn, thorough, 24, 4);
        }
        "C02" => {
            recording_discipline(rng, &mut kn);
            with_weak(rng, &mut kn, true);
            with_selfsame(rng, &mut kn);
            with_unmatched(rng, &mut kn);
            with_noise(rng, &mut kn);
            kn.max_mult = 1 + rng.below(4);
            if rng.chance(1, 3) {
                kn.shape = 8;
            }
            if rng.chance(1, 4) {
                kn.dtor_downgrade_p = 1 + rng.below(3) as u32;
            }
            dense_hub(rng, &mut kn, thorough, 40, 8);
            // handles are also given up through try_unwrap / make_mut / the raw API
            if rng.chance(1, 4) {
                kn.consuming_on_adopted = true;
                kn.drain_consuming = rng.chance(1, 2);
                set_w(&mut kn, K::TryUnwrap, 3);
                set_w(&mut kn, K::CloneFrom, 2);
                set_w(&mut kn, K::MakeMut, 3);
                set_w(&mut kn, K::DropValue, 2);
                set_w(&mut kn, K::IntoRaw, 1);
                set_w(&mut kn, K::FromRaw, 1);
                set_w(&mut kn, K::DecStrong, 1);
            }
        }
        "C03" => {
            if rng.chance(1, 4) {
                recording_discipline(rng, &mut kn);
            }
            with_selfsame(rng, &mut kn);
            with_noise(rng, &mut kn);
            if kn.shape == 0 && rng.chance(2, 3) {
                kn.shape = 1 + rng.below(10) as u32;
                kn.walk_len = rng.below(12);
            }
            kn.drain = true;
            // the last outside handle may also be released through the raw API
            if rng.chance(1, 3) {
                set_w(&mut kn, K::IntoRaw, 3);
                set_w(&mut kn, K::FromRaw, 1);
                set_w(&mut kn, K::IncStrong, 1);
                set_w(&mut kn, K::DecStrong, 3);
            }
            // ... or through the calls that consume or replace a handle
            if rng.chance(1, 3) {
                kn.drain_consuming = true;
                set_w(&mut kn, K::MakeMut, 2);
                set_w(&mut kn, K::CloneFrom, 2);
                set_w(&mut kn, K::TryUnwrap, 1);
                set_w(&mut kn, K::DropValue, 1);
            }
        }
        "C04" => {
            recording_discipline(rng, &mut kn);
            with_weak(rng, &mut kn, true);
            with_unmatched(rng, &mut kn);
            kn.drain = true;
            kn.drain_consuming = rng.chance(1, 4);
            if rng.chance(1, 4) {
                kn.dtor_downgrade_p = 1 + rng.below(3) as u32;
            }
        }
        "C05" => {
            if rng.chance(1, 3) {
                recording_discipline(rng, &mut kn);
            }
            with_weak(rng, &mut kn, true);
            kn.weak_p = 5 + rng.below(4) as u32;
            with_selfsame(rng, &mut kn);
            if rng.chance(1, 2) {
                kn.dtor_downgrade_p = 1 + rng.below(4) as u32;
            }
        }
        "C06" => {
            recording_discipline(rng, &mut kn);
            with_weak(rng, &mut kn, false);
            with_unmatched(rng, &mut kn);
            set_w(&mut kn, K::Clone, 14);
            set_w(&mut kn, K::IntoRaw, 1);
            set_w(&mut kn, K::FromRaw, 2);
            set_w(&mut kn, K::IncStrong, 1);
            set_w(&mut kn, K::DecStrong, 1);
            // handle-creating / handle-consuming calls are handle creation and destruction too
            if rng.chance(1, 2) {
                set_w(&mut kn, K::MakeMut, 3);
                set_w(&mut kn, K::CloneFrom, 2);
                set_w(&mut kn, K::SlotMakeMut, 2);
                set_w(&mut kn, K::TryUnwrap, 1);
                set_w(&mut kn, K::GetMut, 1);
                set_w(&mut kn, K::DropValue, 1);
            }
        }
        "C08" => {
            kn.adopt_p = match rng.below(4) {
                0 => 2,
                1 => 4,
                _ => 8,
            };
            kn.unmatched_p = 1 + rng.below(8) as u32;
            set_w(&mut kn, K::Adopt, 8);
            set_w(&mut kn, K::Unadopt, 10);
            set_w(&mut kn, K::Take, 8);
            with_weak(rng, &mut kn, false);
            kn.max_mult = 1 + rng.below(4);
            dense_hub(rng, &mut kn, thorough, 10, 8);
            // records must also disappear when an object dies or is given up while some
            // of its peers' records are stale (a forgotten unadopt) ...
            if rng.chance(1, 5) {
                kn.elide_p = 1 + rng.below(3) as u32;
            }
            // ... or when its allocation is given up by try_unwrap / make_mut
            if rng.chance(1, 4) {
                set_w(&mut kn, K::TryUnwrap, 3);
                set_w(&mut kn, K::MakeMut, 3);
                set_w(&mut kn, K::SlotMakeMut, 2);
                set_w(&mut kn, K::DropValue, 2);
            }
        }
        "C09" => {
            kn.adopt_p = 8;
            // the property speaks about programs that record every stored handle: no bare
            // adopt/unadopt on program handles (records only change together with handles)
            set_w(&mut kn, K::Unadopt, 0);
            set_w(&mut kn, K::Adopt, 0);
            with_weak(rng, &mut kn, false);
            if kn.shape == 0 && rng.chance(1, 2) {
                kn.shape = 1 + rng.below(10) as u32;
            }
            kn.shape_objs = kn.shape_objs.max(2 + rng.below(4));
            kn.max_objs = kn.max_objs.max(kn.shape_objs);
        }
        "C10" => {
            recording_discipline(rng, &mut kn);
            if rng.chance(3, 4) {
                kn.adopt_p = 8;
            }
            with_weak(rng, &mut kn, false);
            kn.max_objs = 2 + rng.below(if thorough { 5 } else { 4 });
            kn.shape_objs = 1 + rng.below(kn.max_objs.min(4));
            if kn.shape == 0 {
                kn.shape = 1 + rng.below(10) as u32;
            }
            kn.walk_len = rng.below(10);
            kn.drain = true;
        }
        "C15" => {
            // small-history side of C15: groups of every shape, few bystanders
            if kn.shape == 0 {
                kn.shape = 1 + rng.below(10) as u32;
            }
            kn.shape_objs = 2 + rng.below(if thorough { 9 } else { 6 });
            kn.max_objs = kn.shape_objs + rng.below(2);
            kn.max_mult = 1 + rng.below(3);
            kn.walk_len = rng.below(10);
            kn.drain = true;
            with_selfsame(rng, &mut kn);
        }
        "C16" => {
            if rng.chance(1, 4) {
                recording_discipline(rng, &mut kn);
            }
            with_weak(rng, &mut kn, false);
            kn.max_objs = 2 + rng.below(if thorough { 5 } else { 4 });
            kn.shape_objs = 1 + rng.below(kn.max_objs.min(5));
            if kn.shape == 0 {
                kn.shape = 1 + rng.below(10) as u32;
            }
            kn.max_mult = 1 + rng.below(3);
            kn.walk_len = rng.below(8);
            kn.drain = true;
        }
        "C11" => {
            recording_discipline(rng, &mut kn);
            if rng.chance(3, 4) {
                kn.adopt_p = 8;
            }
            with_weak(rng, &mut kn, true);
            kn.max_objs = 1 + rng.below(if thorough { 6 } else { 5 });
            kn.shape_objs = 1 + rng.below(kn.max_objs.min(5));
            if kn.shape == 0 && rng.chance(3, 4) {
                kn.shape = 1 + rng.below(10) as u32;
            }
            kn.walk_len = rng.below(14);
            kn.drain = true;
            // make_mut runs the value's Clone impl, which may panic too
            if rng.chance(1, 3) {
                set_w(&mut kn, K::MakeMut, 5);
                set_w(&mut kn, K::SlotMakeMut, 3);
                kn.walk_len += 6;
            }
        }
        "C12" => {
            recording_discipline(rng, &mut kn);
            if rng.chance(2, 3) {
                kn.adopt_p = 8;
            }
            with_weak(rng, &mut kn, true);
            with_selfsame(rng, &mut kn);
            kn.consuming_on_adopted = true;
            kn.drain_consuming = rng.chance(1, 2);
            set_w(&mut kn, K::TryUnwrap, 5);
            set_w(&mut kn, K::CloneFrom, 2);
            set_w(&mut kn, K::MakeMut, 6);
            set_w(&mut kn, K::SlotMakeMut, 4);
            set_w(&mut kn, K::GetMut, 2);
            set_w(&mut kn, K::IntoRaw, 3);
            set_w(&mut kn, K::FromRaw, 3);
            set_w(&mut kn, K::IncStrong, 2);
            set_w(&mut kn, K::DecStrong, 2);
            set_w(&mut kn, K::DropValue, 3);
            kn.walk_len += 8;
            // some histories also forget an unadopt before consuming the handle
            if rng.chance(1, 4) {
                kn.elide_p = 1 + rng.below(3) as u32;
                set_w(&mut kn, K::Take, 8);
            }
        }
        "C13" => {
            kn.adopt_p = if rng.chance(3, 4) { 8 } else { 5 };
            kn.elide_p = 2 + rng.below(7) as u32;
            set_w(&mut kn, K::Take, 12);
            with_weak(rng, &mut kn, false);
            with_selfsame(rng, &mut kn);
            kn.walk_len += 6;
            // "arbitrary further" operations include giving the taken handle up
            if rng.chance(1, 3) {
                set_w(&mut kn, K::TryUnwrap, 3);
                set_w(&mut kn, K::MakeMut, 2);
                set_w(&mut kn, K::DropValue, 2);
                set_w(&mut kn, K::IntoRaw, 1);
                set_w(&mut kn, K::FromRaw, 1);
                set_w(&mut kn, K::DecStrong, 1);
            }
        }
        "C14" => {
            recording_discipline(rng, &mut kn);
            with_weak(rng, &mut kn, false);
            set_w(&mut kn, K::Take, 10);
            set_w(&mut kn, K::Unadopt, 8);
            set_w(&mut kn, K::Adopt, 4);
            set_w(&mut kn, K::Clone, 14);
            kn.walk_len += 10;
            // records that vanish because a peer died or was given up (also after a forgotten
            // unadopt, with parallel adoptions): the object then has no records and pays nothing
            if rng.chance(1, 4) {
                kn.elide_p = 1 + rng.below(3) as u32;
                kn.max_mult = 2 + rng.below(3);
                set_w(&mut kn, K::TryUnwrap, 2);
                set_w(&mut kn, K::MakeMut, 2);
            }
        }
        _ => {}
    }
    // two-phase construction (new_uninit ... assume_init) in a share of the runs; C09
    // compares layouts of one explicit history, C16 enumerates scenarios on one: both
    // replay whatever was generated
    if matches!(profile, "C01" | "C02" | "C03" | "C04" | "C05" | "C06" | "C08" | "C09" | "C12" | "C14") && rng.chance(1, 6) {
        kn.uninit_p = 1 + rng.below(8) as u32;
    }
    kn
}

/// Was the property's oracle actually exercised by an execution with these
/// per-execution statistics?
pub fn nontrivial(profile: &str, d: &[u64; NSTATS]) -> bool {
    let g = |s: St| d[s as usize];
    match profile {
        "C01" => g(St::p_outside_survived_collection) > 0 || (g(St::p_path_zero_links) + g(St::p_path_cycle) > 0 && g(St::p_c01_deref_checks) > 0),
        "C02" => g(St::p_path_cycle) > 0 || g(St::f_dead_handle_drop_in_dtor) > 0 || g(St::p_path_zero_links) > 0,
        "C03" => g(St::p_obligations_group) > 0,
        "C04" => g(St::p_quiescent) > 0 && g(St::p_path_cycle) + g(St::p_path_zero_links) > 0,
        "C05" => g(St::p_c05_dead_weak_checks) > 0 || g(St::f_weak_upgrade_in_dtor) > 0 || g(St::op_upgrade_none) > 0,
        "C06" => g(St::p_path_cycle) + g(St::p_path_zero_links) > 0 && g(St::p_c06_count_checks) > 0,
        "C08" => g(St::p_c08_entries) > 0,
        "C09" => g(St::p_path_cycle) > 0,
        "C10" => g(St::f_script_action) > 0,
        "C11" => g(St::f_dtor_panic) + g(St::f_dtor_panic_early) + g(St::f_clone_panic) > 0,
        "C12" => g(St::f_consuming_on_adopted) > 0,
        "C13" => g(St::f_elided_unadopt) > 0,
        "C14" => g(St::p_c14_checked_calls) > 0 && g(St::op_store_adopt) > 0,
        "C15" => g(St::p_path_cycle) > 0 && g(St::p_c15_visit_checks) > 0,
        "C16" => g(St::f_dead_handle_clone_in_dtor) + g(St::f_dead_handle_drop_in_dtor) > 0,
        _ => false,
    }
}
